import Walrus.Module

/-! Component-wise reading of `roundTripModule` (C04, C13). -/
namespace Walrus

theorem mapM_some_length {α β : Type} (f : α → Option β) : ∀ (l : List α) (l' : List β),
    l.mapM f = some l' → l'.length = l.length
  | [], l', h => by simp at h; subst h; rfl
  | x :: xs, l', h => by
    simp only [List.mapM_cons, Option.bind_eq_bind] at h
    cases hx : f x with
    | none => simp [hx] at h
    | some y =>
      cases hr : xs.mapM f with
      | none => simp [hx, hr] at h
      | some ys =>
        simp [hx, hr] at h
        subst h
        simp [mapM_some_length f xs ys hr]

theorem mapM_some_get {α β : Type} (f : α → Option β) : ∀ (l : List α) (l' : List β),
    l.mapM f = some l' → ∀ (k : Nat) (x : α), l[k]? = some x → ∃ y, l'[k]? = some y ∧ f x = some y
  | [], l', h, k, x, hk => by simp at hk
  | a :: as, l', h, k, x, hk => by
    simp only [List.mapM_cons, Option.bind_eq_bind] at h
    cases ha : f a with
    | none => simp [ha] at h
    | some y =>
      cases hr : as.mapM f with
      | none => simp [ha, hr] at h
      | some ys =>
        simp [ha, hr] at h
        subst h
        cases k with
        | zero => simp at hk; subst hk; exact ⟨y, by simp, ha⟩
        | succ k =>
          obtain ⟨z, hz, hfz⟩ := mapM_some_get f as ys hr k x (by simpa using hk)
          exact ⟨z, by simpa using hz, hfz⟩

theorem mem_insertBy {α : Type} (le : α → α → Bool) (x y : α) (l : List α) : y ∈ insertBy le x l ↔ y = x ∨ y ∈ l := by
  induction l with
  | nil => simp [insertBy]
  | cons z zs ih =>
    unfold insertBy
    split
    · simp
    · simp only [List.mem_cons, ih]
      constructor
      · rintro (h | h | h)
        · exact Or.inr (Or.inl h)
        · exact Or.inl h
        · exact Or.inr (Or.inr h)
      · rintro (h | h | h)
        · exact Or.inr (Or.inl h)
        · exact Or.inl h
        · exact Or.inr (Or.inr h)

theorem mem_sortBy {α : Type} (le : α → α → Bool) (y : α) (l : List α) : y ∈ sortBy le l ↔ y ∈ l := by
  induction l with
  | nil => simp [sortBy]
  | cons x xs ih =>
    simp only [sortBy, List.foldr_cons] at ih ⊢
    rw [mem_insertBy, ih]
    simp

/-- **no migration** for index spaces that keep their indices: every emitted name at index `i` is
    the (last) name the input gave to index `i` -/
theorem keepNames_sound (l : List (Nat × String)) (p : Nat × String) (h : p ∈ keepNames l) :
    lastName l p.1 = some p.2 := by
  simp only [keepNames, sortNames, mem_sortBy, List.mem_filterMap, Option.map_eq_some_iff] at h
  obtain ⟨i, _, s, hs, rfl⟩ := h
  exact hs

/-- function names: every emitted name at index `j` is the name of an input function `i` that the
    id → index map sends to `j` -/
theorem funcNamesOut_sound (l : List (Nat × String)) (fm : List (Nat × Nat)) (p : Nat × String)
    (h : p ∈ funcNamesOut l fm) : ∃ i, lastName l i = some p.2 ∧ assoc fm i = some p.1 := by
  simp only [funcNamesOut, sortNames, mem_sortBy, List.mem_filterMap] at h
  obtain ⟨i, _, hi⟩ := h
  cases h1 : lastName l i with
  | none => simp [h1] at hi
  | some s =>
    cases h2 : assoc fm i with
    | none => simp [h1, h2] at hi
    | some j =>
      simp only [h1, h2, Option.some.injEq] at hi
      subst hi
      exact ⟨i, h1, h2⟩

theorem mem_distinctIds_aux (l acc : List Nat) (x : Nat) :
    x ∈ l.foldl (fun acc x => if acc.contains x then acc else acc ++ [x]) acc ↔ x ∈ acc ∨ x ∈ l := by
  induction l generalizing acc with
  | nil => simp
  | cons a r ih =>
    simp only [List.foldl_cons, ih, List.mem_cons]
    by_cases h : acc.contains a
    · simp only [h, if_true]
      have ha : a ∈ acc := by simpa using h
      constructor
      · rintro (h1 | h1)
        · exact Or.inl h1
        · exact Or.inr (Or.inr h1)
      · rintro (h1 | h1 | h1)
        · exact Or.inl h1
        · subst h1; exact Or.inl ha
        · exact Or.inr h1
    · simp only [h, if_false, List.mem_append, List.mem_singleton, Bool.false_eq_true]
      constructor
      · rintro ((h1 | h1) | h1)
        · exact Or.inl h1
        · exact Or.inr (Or.inl h1)
        · exact Or.inr (Or.inr h1)
      · rintro (h1 | h1 | h1)
        · exact Or.inl (Or.inl h1)
        · exact Or.inl (Or.inr h1)
        · exact Or.inr h1

theorem mem_distinctIds (l : List Nat) (x : Nat) : x ∈ distinctIds l ↔ x ∈ l := by
  unfold distinctIds
  rw [mem_distinctIds_aux]
  simp

theorem lastName_some_mem (l : List (Nat × String)) (i : Nat) (s : String) (h : lastName l i = some s) :
    (i, s) ∈ l := by
  simp only [lastName, Option.map_eq_some_iff] at h
  obtain ⟨p, hp, rfl⟩ := h
  have := List.mem_of_find?_eq_some hp
  have hi : p.1 = i := by simpa using List.find?_some hp
  rw [← hi]
  exact List.mem_reverse.1 this

/-- **no name is lost** in the index spaces that keep their indices: every index the input names
    carries its (last) name in the output -/
theorem keepNames_complete (l : List (Nat × String)) (i : Nat) (s : String) (h : lastName l i = some s) :
    (i, s) ∈ keepNames l := by
  simp only [keepNames, sortNames, mem_sortBy, List.mem_filterMap, Option.map_eq_some_iff]
  refine ⟨i, ?_, s, h, rfl⟩
  rw [mem_distinctIds]
  exact List.mem_map.2 ⟨(i, s), lastName_some_mem l i s h, rfl⟩

/-- function names: every named input function that has an output index keeps its name there -/
theorem funcNamesOut_complete (l : List (Nat × String)) (fm : List (Nat × Nat)) (i j : Nat) (s : String)
    (h : lastName l i = some s) (hj : assoc fm i = some j) : (j, s) ∈ funcNamesOut l fm := by
  simp only [funcNamesOut, sortNames, mem_sortBy, List.mem_filterMap]
  refine ⟨i, ?_, by simp [h, hj]⟩
  rw [mem_distinctIds]
  exact List.mem_map.2 ⟨(i, s), lastName_some_mem l i s h, rfl⟩

theorem rtElem_flag (fm : List (Nat × Nat)) (maps : IdMaps) (e e' : ElemM) (h : rtElem fm maps e = some e') :
    (match e.mode, e.items with
     | .active t _, .funcs _ => t.getD 0 = 0 → e'.flag = 0
     | .active t _, .exprs ty _ => t.getD 0 = 0 → ty = "funcref" → e'.flag = 4
     | .passive, .funcs _ => e'.flag = 1
     | .declared, .funcs _ => e'.flag = 3
     | .passive, .exprs _ _ => e'.flag = 5
     | .declared, .exprs _ _ => e'.flag = 7) := by
  obtain ⟨fl, md, it⟩ := e
  unfold rtElem at h
  cases md with
  | passive =>
    cases it with
    | funcs fs =>
      simp only at h
      cases hm : fs.mapM (assoc fm) with
      | none => simp [hm] at h
      | some fs' => simp [hm] at h; subst h; simp [elemFlag]
    | exprs ty es =>
      simp only at h
      cases hm : es.mapM (mapCExpr maps) with
      | none => simp [hm] at h
      | some es' => simp [hm] at h; subst h; simp [elemFlag]
  | declared =>
    cases it with
    | funcs fs =>
      simp only at h
      cases hm : fs.mapM (assoc fm) with
      | none => simp [hm] at h
      | some fs' => simp [hm] at h; subst h; simp [elemFlag]
    | exprs ty es =>
      simp only at h
      cases hm : es.mapM (mapCExpr maps) with
      | none => simp [hm] at h
      | some es' => simp [hm] at h; subst h; simp [elemFlag]
  | active t off =>
    cases it with
    | funcs fs =>
      simp only at h
      cases ho : mapCExpr maps off with
      | none => simp [ho] at h
      | some off' =>
        cases hm : fs.mapM (assoc fm) with
        | none => simp [ho, hm] at h
        | some fs' =>
          simp only [ho, hm, Option.map_some, Option.some.injEq] at h
          subst h
          intro ht
          simp [ht, elemFlag]
    | exprs ty es =>
      simp only at h
      cases ho : mapCExpr maps off with
      | none => simp [ho] at h
      | some off' =>
        cases hm : es.mapM (mapCExpr maps) with
        | none => simp [ho, hm] at h
        | some es' =>
          simp only [ho, hm, Option.map_some, Option.some.injEq] at h
          subst h
          intro ht hty
          simp [ht, hty, elemFlag]

/-- what renumbering keeps of one operand: an entity operand stays an operand of the same index
    space, anything else (numeric constants, types, block types) is unchanged -/
def ArgKept (a a' : Arg) : Prop :=
  match a with
  | .ref sp _ => ∃ n, a' = .ref sp n
  | x => a' = x

theorem mapArgs_kept (m : IdMaps) : ∀ (args out : List Arg), mapArgs m args = some out →
    out.length = args.length ∧ ∀ (k : Nat) (a : Arg), args[k]? = some a → ∃ a', out[k]? = some a' ∧ ArgKept a a'
  | [], out, h => by simp [mapArgs] at h; subst h; simp
  | .ref sp id :: r, out, h => by
      simp only [mapArgs] at h
      cases h1 : m.get sp id with
      | none => simp [h1] at h
      | some ix =>
        cases h2 : mapArgs m r with
        | none => simp [h1, h2] at h
        | some r' =>
          simp only [h1, h2, Option.some.injEq] at h
          subst h
          have ih := mapArgs_kept m r r' h2
          refine ⟨by simp [ih.1], fun k a hk => ?_⟩
          cases k with
          | zero => simp at hk; subst hk; exact ⟨_, rfl, ix, rfl⟩
          | succ k => simpa using ih.2 k a (by simpa using hk)
  | .imm s0 :: r, out, h => by
      simp only [mapArgs, Option.map_eq_some_iff] at h
      obtain ⟨r', h2, rfl⟩ := h
      have ih := mapArgs_kept m r r' h2
      refine ⟨by simp [ih.1], fun k a hk => ?_⟩
      cases k with
      | zero => simp at hk; subst hk; exact ⟨_, rfl, rfl⟩
      | succ k => simpa using ih.2 k a (by simpa using hk)
  | .num n0 :: r, out, h => by
      simp only [mapArgs, Option.map_eq_some_iff] at h
      obtain ⟨r', h2, rfl⟩ := h
      have ih := mapArgs_kept m r r' h2
      refine ⟨by simp [ih.1], fun k a hk => ?_⟩
      cases k with
      | zero => simp at hk; subst hk; exact ⟨_, rfl, rfl⟩
      | succ k => simpa using ih.2 k a (by simpa using hk)
  | .bt s0 :: r, out, h => by
      simp only [mapArgs, Option.map_eq_some_iff] at h
      obtain ⟨r', h2, rfl⟩ := h
      have ih := mapArgs_kept m r r' h2
      refine ⟨by simp [ih.1], fun k a hk => ?_⟩
      cases k with
      | zero => simp at hk; subst hk; exact ⟨_, rfl, rfl⟩
      | succ k => simpa using ih.2 k a (by simpa using hk)

/-- what the round trip keeps of a constant expression: the operators, one for one and in order,
    with their names and operands (`ArgKept`) -/
def CExprKept (c c' : CExprM) : Prop :=
  c'.length = c.length ∧ ∀ (i : Nat) (op : Op), c[i]? = some op → ∃ op', c'[i]? = some op' ∧
    op'.name = op.name ∧ op'.args.length = op.args.length ∧
    ∀ (k : Nat) (a : Arg), op.args[k]? = some a → ∃ a', op'.args[k]? = some a' ∧ ArgKept a a'

theorem mapCExpr_kept (m : IdMaps) (c c' : CExprM) (h : mapCExpr m c = some c') : CExprKept c c' := by
  unfold mapCExpr at h
  refine ⟨mapM_some_length _ _ _ h, fun i op hi => ?_⟩
  obtain ⟨op', hop', hf⟩ := mapM_some_get _ _ _ h i op hi
  simp only [Option.map_eq_some_iff] at hf
  obtain ⟨a, ha, rfl⟩ := hf
  exact ⟨_, hop', rfl, (mapArgs_kept m _ _ ha).1, (mapArgs_kept m _ _ ha).2⟩
/-- what the round trip keeps of one element segment: the mode (for an active segment the table it
    initialises — an absent table operand means table 0), the kind of its items, the element type
    and the number of expression items, and the function items renamed by the map `ρ` -/
def ElemKept (ρ : List (Nat × Nat)) (e e' : ElemM) : Prop :=
  (match e.mode with
   | .active t off => ∃ t' off', e'.mode = .active t' off' ∧ t'.getD 0 = t.getD 0 ∧ CExprKept off off'
   | .passive => e'.mode = .passive
   | .declared => e'.mode = .declared) ∧
  (match e.items with
   | .funcs fs => ∃ fs', e'.items = .funcs fs' ∧ fs.mapM (assoc ρ) = some fs' ∧ fs'.length = fs.length
   | .exprs ty es => ∃ es', e'.items = .exprs ty es' ∧ es'.length = es.length ∧
       ∀ (i : Nat) (c : CExprM), es[i]? = some c → ∃ c', es'[i]? = some c' ∧ CExprKept c c')

theorem rtElem_kept (fm : List (Nat × Nat)) (maps : IdMaps) (e e' : ElemM) (h : rtElem fm maps e = some e') :
    ElemKept fm e e' := by
  obtain ⟨fl, md, it⟩ := e
  unfold rtElem at h
  unfold ElemKept
  cases md with
  | passive =>
    cases it with
    | funcs fs =>
      simp only at h
      cases hm : fs.mapM (assoc fm) with
      | none => simp [hm] at h
      | some fs' => simp [hm] at h; subst h; exact ⟨rfl, fs', rfl, hm, mapM_some_length _ _ _ hm⟩
    | exprs ty es =>
      simp only at h
      cases hm : es.mapM (mapCExpr maps) with
      | none => simp [hm] at h
      | some es' => simp [hm] at h; subst h; exact ⟨rfl, es', rfl, mapM_some_length _ _ _ hm, fun i c hi => (mapM_some_get _ _ _ hm i c hi).imp fun c' hc => ⟨hc.1, mapCExpr_kept _ _ _ hc.2⟩⟩
  | declared =>
    cases it with
    | funcs fs =>
      simp only at h
      cases hm : fs.mapM (assoc fm) with
      | none => simp [hm] at h
      | some fs' => simp [hm] at h; subst h; exact ⟨rfl, fs', rfl, hm, mapM_some_length _ _ _ hm⟩
    | exprs ty es =>
      simp only at h
      cases hm : es.mapM (mapCExpr maps) with
      | none => simp [hm] at h
      | some es' => simp [hm] at h; subst h; exact ⟨rfl, es', rfl, mapM_some_length _ _ _ hm, fun i c hi => (mapM_some_get _ _ _ hm i c hi).imp fun c' hc => ⟨hc.1, mapCExpr_kept _ _ _ hc.2⟩⟩
  | active t off =>
    have mode : ∀ (off'' : CExprM) (it' : ElemItemsM), ∃ t' off',
        (match (ElemModeM.active (match t.getD 0 with | 0 => none | k => some k) off'' : ElemModeM) with
          | .active none o => if elemFlag (ElemModeM.active (match t.getD 0 with | 0 => none | k => some k) off'') it' = 2 ||
              elemFlag (ElemModeM.active (match t.getD 0 with | 0 => none | k => some k) off'') it' = 6 then ElemModeM.active (some 0) o
              else (ElemModeM.active (match t.getD 0 with | 0 => none | k => some k) off'')
          | x => x) = ElemModeM.active t' off' ∧ t'.getD 0 = t.getD 0 ∧ off' = off'' := by
      intro off'' it'
      cases ht : t.getD 0 with
      | zero =>
        simp only
        split
        · exact ⟨_, _, rfl, rfl, rfl⟩
        · exact ⟨_, _, rfl, rfl, rfl⟩
      | succ n => exact ⟨_, _, rfl, rfl, rfl⟩
    cases it with
    | funcs fs =>
      simp only at h
      cases ho : mapCExpr maps off with
      | none => simp [ho] at h
      | some off'' =>
        cases hm : fs.mapM (assoc fm) with
        | none => simp [ho, hm] at h
        | some fs' =>
          simp only [ho, hm, Option.map_some, Option.some.injEq] at h
          subst h
          obtain ⟨t', o', h1, h2, rfl⟩ := mode off'' (ElemItemsM.funcs fs')
          exact ⟨⟨t', _, h1, h2, mapCExpr_kept _ _ _ ho⟩, fs', rfl, hm, mapM_some_length _ _ _ hm⟩
    | exprs ty es =>
      simp only at h
      cases ho : mapCExpr maps off with
      | none => simp [ho] at h
      | some off'' =>
        cases hm : es.mapM (mapCExpr maps) with
        | none => simp [ho, hm] at h
        | some es' =>
          simp only [ho, hm, Option.map_some, Option.some.injEq] at h
          subst h
          obtain ⟨t', o', h1, h2, rfl⟩ := mode off'' (ElemItemsM.exprs ty es')
          exact ⟨⟨t', _, h1, h2, mapCExpr_kept _ _ _ ho⟩, es', rfl, mapM_some_length _ _ _ hm, fun i c hi => (mapM_some_get _ _ _ hm i c hi).imp fun c' hc => ⟨hc.1, mapCExpr_kept _ _ _ hc.2⟩⟩

theorem rtData_facts (maps : IdMaps) (d d' : DataM) (h : rtData maps d = some d') :
    d'.bytes = d.bytes ∧
    (match d.mode with
     | .passive => d'.mode = .passive ∧ d'.flag = 1
     | .active mem o => (∃ off, d'.mode = .active mem off ∧ CExprKept o off) ∧ d'.flag = (match mem with | 0 => 0 | _ => 2)) := by
  obtain ⟨fl, md, by'⟩ := d
  unfold rtData at h
  cases md with
  | passive => simp at h; subst h; exact ⟨rfl, rfl, rfl⟩
  | active mem off =>
    simp only [Option.map_eq_some_iff] at h
    obtain ⟨o', ho', rfl⟩ := h
    refine ⟨rfl, ⟨o', rfl, mapCExpr_kept _ _ _ ho'⟩, ?_⟩
    cases mem <;> simp [dataFlag]

theorem assoc_append_cases (a b : List (Nat × Nat)) (k x : Nat) (h : assoc (a ++ b) k = some x) :
    assoc a k = some x ∨ (assoc a k = none ∧ assoc b k = some x) := by
  induction a with
  | nil => right; exact ⟨rfl, by simpa using h⟩
  | cons p r ih =>
    obtain ⟨p1, p2⟩ := p
    simp only [List.cons_append, assoc] at h ⊢
    split
    · rename_i hp; simp only [hp, if_true] at h; left; exact h
    · rename_i hp; simp only [hp, if_false] at h; exact ih h

theorem assoc_map_id (l : List Nat) (k x : Nat) (h : assoc (l.map fun i => (i, i)) k = some x) :
    x = k ∧ k ∈ l := by
  induction l with
  | nil => simp [assoc] at h
  | cons a r ih =>
    simp only [List.map_cons, assoc] at h
    split at h
    · rename_i ha; injection h with h; subst h; subst ha; exact ⟨rfl, by simp⟩
    · obtain ⟨h1, h2⟩ := ih h; exact ⟨h1, by simp [h2]⟩

theorem assoc_zipIdx_base {α : Type} (key : α → Nat) (base : Nat) : ∀ (l : List α) (start k x : Nat),
    assoc ((l.zipIdx start).map fun p => (key p.1, base + p.2)) k = some x →
    ∃ j, x = base + j ∧ start ≤ j ∧ (l[j - start]?).map key = some k
  | [], _, _, _, h => by simp [assoc] at h
  | a :: r, start, k, x, h => by
    simp only [List.zipIdx_cons, List.map_cons, assoc] at h
    split at h
    · rename_i hk
      injection h with h
      exact ⟨start, h.symm, Nat.le_refl _, by simp [hk]⟩
    · obtain ⟨j, h1, h2, h3⟩ := assoc_zipIdx_base key base r (start + 1) k x h
      refine ⟨j, h1, by omega, ?_⟩
      have : j - start = (j - (start + 1)) + 1 := by omega
      rw [this]; simpa using h3

/-- the function renaming of the round trip is injective: two function ids never share an index -/
theorem funcMap_injective {α : Type} (key : α → Nat) (nif : Nat) (fs : List α) (a b x : Nat)
    (ha : assoc ((List.range nif).map (fun i => (i, i)) ++ fs.zipIdx.map (fun p => (key p.1, nif + p.2))) a = some x)
    (hb : assoc ((List.range nif).map (fun i => (i, i)) ++ fs.zipIdx.map (fun p => (key p.1, nif + p.2))) b = some x) :
    a = b := by
  rcases assoc_append_cases _ _ _ _ ha with ha | ⟨_, ha⟩ <;> rcases assoc_append_cases _ _ _ _ hb with hb | ⟨_, hb⟩
  · obtain ⟨h1, _⟩ := assoc_map_id _ _ _ ha
    obtain ⟨h2, _⟩ := assoc_map_id _ _ _ hb
    omega
  · obtain ⟨h1, h1'⟩ := assoc_map_id _ _ _ ha
    obtain ⟨j, h2, _, _⟩ := assoc_zipIdx_base key nif fs 0 b x hb
    have := List.mem_range.1 h1'
    omega
  · obtain ⟨h1, h1'⟩ := assoc_map_id _ _ _ hb
    obtain ⟨j, h2, _, _⟩ := assoc_zipIdx_base key nif fs 0 a x ha
    have := List.mem_range.1 h1'
    omega
  · obtain ⟨j, h1, _, h3⟩ := assoc_zipIdx_base key nif fs 0 a x ha
    obtain ⟨j', h1', _, h3'⟩ := assoc_zipIdx_base key nif fs 0 b x hb
    have : j = j' := by omega
    subst this
    rw [h3] at h3'
    injection h3'
theorem insertBy_perm {α : Type} (le : α → α → Bool) (x : α) : ∀ (l : List α), (insertBy le x l).Perm (x :: l)
  | [] => by simp [insertBy]
  | y :: r => by
    simp only [insertBy]
    split
    · exact List.Perm.refl _
    · exact ((insertBy_perm le x r).cons y).trans (List.Perm.swap x y r)

theorem sortBy_perm {α : Type} (le : α → α → Bool) (l : List α) : (sortBy le l).Perm l := by
  induction l with
  | nil => simp [sortBy]
  | cons x xs ih =>
    simp only [sortBy, List.foldr_cons] at ih ⊢
    exact (insertBy_perm le x _).trans (ih.cons x)

theorem distinctIds_aux_nodup (l : List Nat) : ∀ (acc : List Nat), acc.Nodup →
    (l.foldl (fun acc x => if acc.contains x then acc else acc ++ [x]) acc).Nodup := by
  induction l with
  | nil => intro acc h; simpa using h
  | cons x r ih =>
    intro acc h
    simp only [List.foldl_cons]
    split
    · exact ih acc h
    · rename_i hc
      apply ih
      rw [List.nodup_append]
      refine ⟨h, by simp, ?_⟩
      intro a ha b hb
      simp only [List.mem_singleton] at hb
      subst hb
      intro hab
      subst hab
      exact hc (by simpa using ha)

theorem distinctIds_nodup (l : List Nat) : (distinctIds l).Nodup :=
  distinctIds_aux_nodup l [] List.nodup_nil

/-- **the emitted function-name map has one entry per index**: when the id → index map is
    injective, no two names land on the same function index -/
theorem funcNamesOut_nodup (l : List (Nat × String)) (ρ : List (Nat × Nat))
    (hinj : ∀ a b x : Nat, assoc ρ a = some x → assoc ρ b = some x → a = b) :
    ((funcNamesOut l ρ).map (·.1)).Nodup := by
  unfold funcNamesOut sortNames
  refine ((sortBy_perm _ _).map _).nodup_iff.2 ?_
  generalize hd : distinctIds (l.map (·.1)) = ids
  have hn : ids.Nodup := hd ▸ distinctIds_nodup _
  clear hd
  induction ids with
  | nil => simp
  | cons i r ih =>
    have hn' := List.nodup_cons.1 hn
    simp only [List.filterMap_cons]
    split
    · exact ih hn'.2
    · rename_i p hp
      simp only [List.map_cons, List.nodup_cons]
      refine ⟨?_, ih hn'.2⟩
      intro hmem
      simp only [List.mem_map, List.mem_filterMap] at hmem
      obtain ⟨q, ⟨i', hi', hq⟩, hq1⟩ := hmem
      -- both i and i' map to the same index
      cases hl : lastName l i with
      | none => simp [hl] at hp
      | some s =>
        cases ha : assoc ρ i with
        | none => simp [hl, ha] at hp
        | some j =>
          simp only [hl, ha, Option.some.injEq] at hp
          cases hl' : lastName l i' with
          | none => simp [hl'] at hq
          | some s' =>
            cases ha' : assoc ρ i' with
            | none => simp [hl', ha'] at hq
            | some j' =>
              simp only [hl', ha', Option.some.injEq] at hq
              subst hp; subst hq
              simp only at hq1
              subst hq1
              have := hinj _ _ _ ha ha'
              subst this
              exact hn'.1 hi'
theorem keepNames_nodup (l : List (Nat × String)) : ((keepNames l).map (·.1)).Nodup := by
  unfold keepNames sortNames
  refine ((sortBy_perm _ _).map _).nodup_iff.2 ?_
  generalize hd : distinctIds (l.map (·.1)) = ids
  have hn : ids.Nodup := hd ▸ distinctIds_nodup _
  clear hd
  induction ids with
  | nil => simp
  | cons i r ih =>
    have hn' := List.nodup_cons.1 hn
    simp only [List.filterMap_cons]
    split
    · exact ih hn'.2
    · rename_i p hp
      simp only [List.map_cons, List.nodup_cons]
      refine ⟨?_, ih hn'.2⟩
      intro hmem
      simp only [List.mem_map, List.mem_filterMap, Option.map_eq_some_iff] at hmem hp
      obtain ⟨q, ⟨i', hi', s', _, hq⟩, hq1⟩ := hmem
      obtain ⟨s, _, hp⟩ := hp
      subst hp; subst hq
      simp only at hq1
      subst hq1
      exact hn'.1 hi'

/-- everything `roundTripModule` returns, as equations on the components -/
structure RTComponents (m o : ModuleM) : Prop where
  tables : o.tables = m.tables
  mems : o.mems = m.mems
  importsLen : o.imports.length = m.imports.length
  imports : ∀ (k : Nat) (i : String × String × ImportDescM), m.imports[k]? = some i → ∃ j : String × String × ImportDescM, o.imports[k]? = some j ∧ j.1 = i.1 ∧ j.2.1 = i.2.1 ∧
    (match i.2.2 with
     | .func _ => ∃ t, j.2.2 = .func t
     | d => j.2.2 = d)
  globalsLen : o.globals.length = m.globals.length
  globals : ∀ (k : Nat) (g : GlobalTyM × CExprM), m.globals[k]? = some g → ∃ h : GlobalTyM × CExprM, o.globals[k]? = some h ∧ h.1 = g.1 ∧ CExprKept g.2 h.2
  exportsLen : o.exports.length = m.exports.length
  exports : ∀ (k : Nat) (e : String × String × Nat), m.exports[k]? = some e → ∃ e' : String × String × Nat, o.exports[k]? = some e' ∧ e'.1 = e.1 ∧ e'.2.1 = e.2.1 ∧
    (e.2.1 ≠ "f" → e'.2.2 = e.2.2)
  elemsLen : o.elems.length = m.elems.length
  datasLen : o.datas.length = m.datas.length
  datas : ∀ (k : Nat) (d : DataM), m.datas[k]? = some d → ∃ d' : DataM, o.datas[k]? = some d' ∧ d'.bytes = d.bytes ∧
    (match d.mode with
     | .passive => d'.mode = .passive
     | .active mem o => ∃ off, d'.mode = .active mem off ∧ CExprKept o off)
  startSome : m.start.isSome = o.start.isSome
  elems : ∀ (k : Nat) (e : ElemM), m.elems[k]? = some e → ∃ e' : ElemM, o.elems[k]? = some e' ∧
    (match e.mode, e.items with
     | .active t _, .funcs _ => t.getD 0 = 0 → e'.flag = 0
     | .active t _, .exprs ty _ => t.getD 0 = 0 → ty = "funcref" → e'.flag = 4
     | .passive, .funcs _ => e'.flag = 1
     | .declared, .funcs _ => e'.flag = 3
     | .passive, .exprs _ _ => e'.flag = 5
     | .declared, .exprs _ _ => e'.flag = 7)
  dataFlags : ∀ (k : Nat) (d : DataM), m.datas[k]? = some d → ∃ d' : DataM, o.datas[k]? = some d' ∧
    (match d.mode with
     | .passive => d'.flag = 1
     | .active 0 _ => d'.flag = 0
     | .active _ _ => d'.flag = 2)
  noDataNoCount : m.datas = [] → o.dataCount = none
  -- a data-count section, when written, states the number of data segments
  dataCountExact : ∀ n, o.dataCount = some n → n = m.datas.length ∧ o.datas.length = n
  funcsLen : o.funcs.length = o.code.length
  -- one map renames the function operands of exports and of the start section
  funcRenaming : ∃ ρ : List (Nat × Nat),
    (∀ (k : Nat) (e : String × String × Nat), m.exports[k]? = some e → e.2.1 = "f" →
      ∃ e' : String × String × Nat, o.exports[k]? = some e' ∧ assoc ρ e.2.2 = some e'.2.2) ∧
    (∀ s, m.start = some s → ∃ s', o.start = some s' ∧ assoc ρ s = some s') ∧
    (∀ no, o.names = some no → ∃ n, m.names = some n ∧ no.module = n.module ∧ no.funcs = funcNamesOut n.funcs ρ ∧
      no.tables = keepNames n.tables ∧ no.mems = keepNames n.mems ∧ no.globals = keepNames n.globals ∧
      no.elems = keepNames n.elems ∧ no.datas = keepNames n.datas) ∧
    -- ... and the function items of element segments; mode, table, item kind, element type and
    -- item count of every element segment are kept
    (∀ (k : Nat) (e : ElemM), m.elems[k]? = some e → ∃ e' : ElemM, o.elems[k]? = some e' ∧ ElemKept ρ e e') ∧
    -- the map is injective: two functions of the input never share an index of the output
    (∀ a b x : Nat, assoc ρ a = some x → assoc ρ b = some x → a = b)

theorem roundTrip_components (m o : ModuleM) (h : roundTripModule m = some o) : RTComponents m o := by
  unfold roundTripModule at h
  simp only at h
  split at h
  · cases h
  · split at h
    · cases h
    · rename_i pfs hpfs
      split at h
      · cases h
      · rename_i oc hoc
        split at h
        · rename_i im gl ex st el da him hgl hex hst hel hda
          simp only [Option.some.injEq] at h
          subst h
          refine ⟨rfl, rfl, mapM_some_length _ _ _ him, ?_, mapM_some_length _ _ _ hgl, ?_,
            mapM_some_length _ _ _ hex, ?_, mapM_some_length _ _ _ hel, mapM_some_length _ _ _ hda, ?_, ?_, ?_, ?_, ?_, ?_, ?_, ?_⟩
          · intro k i hk
            obtain ⟨j, hj, hf⟩ := mapM_some_get _ _ _ him k i hk
            refine ⟨j, hj, ?_⟩
            obtain ⟨a, b, d⟩ := i
            cases d with
            | func t =>
              simp only [Option.map_eq_some_iff] at hf
              obtain ⟨t', _, rfl⟩ := hf
              exact ⟨rfl, rfl, t', rfl⟩
            | table t => simp at hf; subst hf; exact ⟨rfl, rfl, rfl⟩
            | mem t => simp at hf; subst hf; exact ⟨rfl, rfl, rfl⟩
            | global t => simp at hf; subst hf; exact ⟨rfl, rfl, rfl⟩
          · intro k g hk
            obtain ⟨j, hj, hf⟩ := mapM_some_get _ _ _ hgl k g hk
            simp only [Option.map_eq_some_iff] at hf
            obtain ⟨e, he, rfl⟩ := hf
            exact ⟨_, hj, rfl, mapCExpr_kept _ _ _ he⟩
          · intro k e hk
            obtain ⟨j, hj, hf⟩ := mapM_some_get _ _ _ hex k e hk
            refine ⟨j, hj, ?_⟩
            split at hf
            · rename_i hkf
              simp only [Option.map_eq_some_iff] at hf
              obtain ⟨i', _, rfl⟩ := hf
              exact ⟨rfl, rfl, fun hne => absurd hkf hne⟩
            · simp at hf; subst hf; exact ⟨rfl, rfl, fun _ => rfl⟩
          · intro k d hk
            obtain ⟨j, hj, hf⟩ := mapM_some_get _ _ _ hda k d hk
            refine ⟨j, hj, (rtData_facts _ d j hf).1, ?_⟩
            have := (rtData_facts _ d j hf).2
            cases hm : d.mode with
            | passive => simp only [hm] at this; exact this.1
            | active mem off => simp only [hm] at this; exact this.1
          · cases hs : m.start with
            | none => simp [hs] at hst; subst hst; rfl
            | some s =>
              simp only [hs, Option.map_eq_some_iff] at hst
              obtain ⟨s', _, rfl⟩ := hst
              rfl
          · -- element flags
            intro k e hk
            obtain ⟨j, hj, hf⟩ := mapM_some_get _ _ _ hel k e hk
            exact ⟨j, hj, rtElem_flag _ _ e j hf⟩
          · -- data flags
            intro k d hk
            obtain ⟨j, hj, hf⟩ := mapM_some_get _ _ _ hda k d hk
            refine ⟨j, hj, ?_⟩
            have := (rtData_facts _ d j hf).2
            cases hm : d.mode with
            | passive => simp only [hm] at this; exact this.2
            | active mem off =>
              simp only [hm] at this
              cases mem with
              | zero => exact this.2
              | succ n => exact this.2
          · intro hd
            simp [hd]
          · intro n hn
            simp only at hn
            split at hn
            · cases hn
            · split at hn
              · injection hn with hn
                exact ⟨hn.symm, by rw [← hn]; exact mapM_some_length _ _ _ hda⟩
              · cases hn
          · simp
          · refine ⟨(List.range (importedCount m "f")).map (fun i => (i, i)) ++
              oc.funcs.zipIdx.map (fun p => (p.1.id, importedCount m "f" + p.2)), ?_, ?_, ?_, ?_, ?_⟩
            · intro k e hk hf
              obtain ⟨j, hj, hfj⟩ := mapM_some_get _ _ _ hex k e hk
              simp only [hf, if_true, Option.map_eq_some_iff] at hfj
              obtain ⟨i', hi', rfl⟩ := hfj
              exact ⟨_, hj, hi'⟩
            · intro s hs
              simp only [hs, Option.map_eq_some_iff] at hst
              obtain ⟨s', hs', rfl⟩ := hst
              exact ⟨s', rfl, hs'⟩
            · intro no hno
              cases hn : m.names with
              | none => simp [hn] at hno
              | some n =>
                simp only [hn, Option.map_some] at hno
                split at hno
                · cases hno
                · simp only [Option.some.injEq] at hno
                  subst hno
                  exact ⟨n, rfl, rfl, rfl, rfl, rfl, rfl, rfl, rfl⟩
            · intro k e hk
              obtain ⟨j, hj, hf⟩ := mapM_some_get _ _ _ hel k e hk
              exact ⟨j, hj, rtElem_kept _ _ e j hf⟩
            · intro a b x ha hb
              exact funcMap_injective (fun f : OutFunc => f.id) _ oc.funcs a b x ha hb
        · cases h

end Walrus
