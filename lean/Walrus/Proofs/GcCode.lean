import Walrus.Proofs.GcEmit
import Walrus.CodeMaps

/-!
After the GC pass, every entity operand of every instruction of every kept function has an emitted
index in the maps the code section is emitted with (C02: "no entity that is still referenced may be
left without an emitted index", for the code section).  The maps are `mapsOf` (Walrus/CodeMaps.lean:
the `let`s of `emitCodeWith` under names; `rentie` checks on every case that they reproduce the
modelled emission).
-/
namespace Walrus

/-- the keep-set and maps `gcRoundTrip` hands to `emitCodeWith` -/
def gcKeep (g : GcInfo) (m : ModuleM) : Keep :=
  ⟨keptOf (usedSet g) "f" (g.nif + m.funcs.length), keptOf (usedSet g) "y" (distinctSigs m.sigs).length,
   { tables := compact (keptOf (usedSet g) "t" (g.nit + m.tables.length)),
     mems := compact (keptOf (usedSet g) "m" (g.nim + m.mems.length)),
     globals := compact (keptOf (usedSet g) "g" (g.nig + m.globals.length)),
     elems := compact (keptOf (usedSet g) "e" m.elems.length),
     datas := compact (keptOf (usedSet g) "d" m.datas.length) }⟩

/-- a kept function has an index in the function map of the code emission (kept imports first, then
    the kept local functions in emission order) -/
theorem funcMapOf_total (m : ModuleM) (g : GcInfo) (hg : mkGcInfo m = some g)
    (hlen : m.code.length = m.funcs.length) (f : Nat) (hf : ("f", f) ∈ usedSet g)
    (hr : f < g.nif + m.funcs.length) :
    (assoc (funcMapOf (codeOf m) g.pfs (gcKeep g m)) f).isSome = true := by
  obtain ⟨hp, _, hnif⟩ := mkGcInfo_spec m g hg
  have hkept : f ∈ keptOf (usedSet g) "f" (g.nif + m.funcs.length) := (mem_keptOf _ _ _ _).2 ⟨hr, hf⟩
  unfold funcMapOf
  simp only
  have happ : ∀ (a b : List (Nat × Nat)), (assoc a f).isSome = true ∨ (assoc b f).isSome = true →
      (assoc (a ++ b) f).isSome = true := by
    intro a b h
    rw [assoc_append]
    rcases h with h | h
    · obtain ⟨x, hx⟩ := Option.isSome_iff_exists.1 h; simp [hx]
    · cases ha : assoc a f with
      | some x => simp
      | none => simpa using h
  apply happ
  by_cases hi : f < g.nif
  · left
    apply assoc_zipIdx_key_some (fun q : Nat => q) f
    rw [List.mem_filter]
    refine ⟨List.mem_range.2 (by simp only [codeOf]; rw [← hnif]; exact hi), ?_⟩
    simpa [gcKeep] using hkept
  · right
    obtain ⟨hl, hspec⟩ := parseCode_spec (codeOf m) g.pfs hp
    have hk : f - g.nif < (codeOf m).funcs.length := by
      rw [codeOf_funcs_length m hlen]; omega
    obtain ⟨pf, hpf, hid, _⟩ := hspec (f - g.nif) (codeOf m).funcs[f - g.nif] (by simp [hk])
    have hid' : pf.id = f := by
      rw [hid]; simp only [codeOf]; rw [← hnif]; omega
    have hmem : (pf, funcSize (PSeqs.toArena pf.seqs) 0) ∈
        sortBy (fun a b => decide (a.2 > b.2) || (a.2 == b.2 && decide (a.1.id ≤ b.1.id)))
          ((g.pfs.filter fun f => (gcKeep g m).funcs.contains f.id).map fun f => (f, funcSize (PSeqs.toArena f.seqs) 0)) := by
      rw [mem_sortBy, List.mem_map]
      exact ⟨pf, List.mem_filter.2 ⟨List.mem_of_getElem? hpf, by simpa [gcKeep, hid'] using hkept⟩, rfl⟩
    have := assoc_zipIdx_key_some (fun q : ParsedFunc × Nat => q.1.id) _ _ 0 hmem
    simp only [hid'] at this
    -- the emitted index is shifted by the number of kept imports; only existence matters
    have gen : ∀ (l : List (ParsedFunc × Nat)) (s k : Nat),
        (assoc ((l.zipIdx s).map fun p => (p.1.1.id, p.2)) f).isSome = true →
        (assoc ((l.zipIdx s).map fun p => (p.1.1.id, k + p.2)) f).isSome = true := by
      intro l
      induction l with
      | nil => intro s k h; simp [assoc] at h
      | cons a r ih =>
        intro s k h
        simp only [List.zipIdx_cons, List.map_cons, assoc] at h ⊢
        split
        · rfl
        · rename_i hne
          simp only [hne, if_false] at h
          exact ih (s + 1) k h
    exact gen _ 0 _ this

theorem tyMapOf_eq (m : ModuleM) (g : GcInfo) : tyMapOf (codeOf m) (gcKeep g m) = gcTyMap g m := rfl

theorem in_universe_f (g : GcInfo) (i : Nat) (h : i < g.nif + g.pfs.length) : ("f", i) ∈ entUniverse g := by
  simp only [entUniverse, List.mem_append, List.mem_map, List.mem_range, Prod.mk.injEq]
  exact Or.inl (Or.inl (Or.inl (Or.inl (Or.inl (Or.inl ⟨i, h, trivial, rfl⟩)))))

/-- **every entity operand of every instruction of a kept function has an emitted index** in the maps
    its body is emitted with: functions, tables, memories, globals, data and element segments, and
    the types named by `call_indirect` and by block types (the function-entry types, which are
    internal and never written, aside) -/
theorem gc_body_operands_have_indices (m : ModuleM) (g : GcInfo) (hg : mkGcInfo m = some g)
    (hlen : m.code.length = m.funcs.length) (hw : gcWF g = true) (f : Nat) (pf : ParsedFunc)
    (hloc : ¬ f < g.nif) (hpf : g.pfs[f - g.nif]? = some pf) (hf : ("f", f) ∈ usedSet g)
    (lmap : List (Nat × Nat)) (y : Ent) (hy : y ∈ refsOfBody pf.seqs)
    (hty : y.1 = "y" → y.2 < (distinctSigs m.sigs).length) :
    ((mapsOf (codeOf m) g.pfs (gcKeep g m) lmap).get y.1 y.2).isSome = true := by
  have hd := gcWF_finishes g hw
  obtain ⟨_, hm, _⟩ := mkGcInfo_spec m g hg
  have hw' := hw
  simp only [gcWF, Bool.and_eq_true, List.all_eq_true, List.contains_eq_mem, decide_eq_true_eq] at hw'
  have hflt : f < g.nif + g.pfs.length := by
    have := (List.getElem?_eq_some_iff.1 hpf).1
    omega
  have hsucc : y ∈ gcSucc g ("f", f) := by
    simp only [gcSucc, hloc, if_false, hpf]
    exact List.mem_cons_of_mem _ hy
  have hcl := (mem_usedSet_closure g _ hf).resolve_right (by simp)
  have hu : y ∈ usedSet g := usedSet_closed g hd _ y hcl hsucc
  have hr : y ∈ entUniverse g := hw'.2 _ (in_universe_f g f hflt) y hsucc
  obtain ⟨sp, i⟩ := y
  simp only at hty
  subst hm
  rcases mem_entUniverse g sp i hr with h | h | h | h | h | h | h
  · obtain ⟨rfl, hi⟩ := h
    have := funcMapOf_total g.m g hg hlen i hu (by rw [← pfs_length g.m g hg hlen]; exact hi)
    simpa [mapsOf, IdMaps.get, gcKeep] using this
  · obtain ⟨rfl, hi⟩ := h
    simpa [mapsOf, IdMaps.get, gcKeep] using C02.kept_has_index _ "t" _ i hi hu
  · obtain ⟨rfl, hi⟩ := h
    simpa [mapsOf, IdMaps.get, gcKeep] using C02.kept_has_index _ "m" _ i hi hu
  · obtain ⟨rfl, hi⟩ := h
    simpa [mapsOf, IdMaps.get, gcKeep] using C02.kept_has_index _ "g" _ i hi hu
  · obtain ⟨rfl, hi⟩ := h
    simpa [mapsOf, IdMaps.get, gcKeep] using C02.kept_has_index _ "e" _ i hi hu
  · obtain ⟨rfl, hi⟩ := h
    simpa [mapsOf, IdMaps.get, gcKeep] using C02.kept_has_index _ "d" _ i hi hu
  · obtain ⟨rfl, _⟩ := h
    have := gcTyMap_total g g.m i (hty rfl) hu
    rw [← tyMapOf_eq] at this
    have hid : (gcKeep g g.m).other.identity = [] := rfl
    simpa [mapsOf, IdMaps.get, hid] using this

end Walrus
