import Walrus.Run
import Walrus.Rename

/-! The observation glue (instantiation, export script, exported state) commutes with a renumbering
    of the function indices that the non-code sections carry: exports, start, element items,
    `ref.func` in constant expressions. -/
namespace Walrus.Sem

theorem mapFOp_name (g : Nat → Nat) (o : Op) : (mapFOp g o).name = o.name := by
  unfold mapFOp; split
  · split <;> rfl
  · rfl

theorem constStep_mapF (g : Nat → Nat) (res : Nat → Option Nat) (gs : List V) (stk : Option (List V)) (o : Op) :
    constStep res gs stk (mapFOp g o) = constStep (fun f => res (g f)) gs stk o := by
  unfold constStep
  cases stk with
  | none => rfl
  | some stk =>
    simp only [mapFOp_name]
    by_cases h1 : o.name = "End"
    · simp [h1]
    · by_cases h2 : o.name = "GlobalGet"
      · have : mapFOp g o = o := by simp [mapFOp, h2]
        simp [h2, this]
      · by_cases h3 : o.name = "RefFunc"
        · obtain ⟨n, args⟩ := o
          simp only at h3; subst h3
          rcases args with _ | ⟨a, _ | ⟨b, r⟩⟩
          · simp [mapFOp]
          · cases a <;> simp [mapFOp]
          · simp [mapFOp]
        · have : mapFOp g o = o := by simp [mapFOp, h3]
          simp [h1, h2, h3, this]

theorem evalConst_mapF (g : Nat → Nat) (res : Nat → Option Nat) (gs : List V) (c : CExprM) :
    evalConst res gs (mapFC g c) = evalConst (fun f => res (g f)) gs c := by
  unfold evalConst mapFC
  rw [List.foldl_map]
  have : (fun x y => constStep res gs x (mapFOp g y)) = constStep (fun f => res (g f)) gs := by
    funext x y; exact constStep_mapF g res gs x y
  rw [this]

theorem mapM_congr {α β : Type} (f g : α → Option β) (l : List α) (h : ∀ x, f x = g x) : l.mapM f = l.mapM g := by
  have : f = g := funext h
  rw [this]

theorem elemItems_mapF (g : Nat → Nat) (res : Nat → Option Nat) (gs : List V) (e : ElemM) :
    elemItems res gs (mapFElem g e) = elemItems (fun f => res (g f)) gs e := by
  unfold elemItems mapFElem
  cases e.items with
  | funcs fs => simp only [List.mapM_map]; rfl
  | exprs ty es =>
    simp only [List.mapM_map]
    apply mapM_congr
    intro c
    exact evalConst_mapF g res gs c


theorem initGlobals_mapF (g : Nat → Nat) (res : Nat → Option Nat) (imp : List V) (gl : List (GlobalTyM × CExprM)) :
    initGlobals res imp (gl.map fun p => (p.1, mapFC g p.2)) = initGlobals (fun f => res (g f)) imp gl := by
  unfold initGlobals
  rw [List.foldl_map]
  simp only [evalConst_mapF]

theorem elemStep_mapF (g : Nat → Nat) (res : Nat → Option Nat) (acc : Except String Store) (e : ElemM) (i : Nat) :
    elemStep res acc (mapFElem g e, i) = elemStep (fun f => res (g f)) acc (e, i) := by
  unfold elemStep
  cases acc with
  | error x => rfl
  | ok st =>
    simp only [mapFElem]
    cases e.mode with
    | active t off => simp only [evalConst_mapF]
    | passive => rfl
    | declared => rfl

theorem dataStep_mapF (g : Nat → Nat) (res : Nat → Option Nat) (acc : Except String Store) (d : DataM) (i : Nat) :
    dataStep res acc (mapFData g d, i) = dataStep (fun f => res (g f)) acc (d, i) := by
  unfold dataStep
  cases acc with
  | error x => rfl
  | ok st =>
    simp only [mapFData]
    cases d.mode with
    | active mi off => simp only [evalConst_mapF]
    | passive => rfl

theorem zipIdx_map' {α β : Type} (f : α → β) (l : List α) (k : Nat) :
    (l.map f).zipIdx k = (l.zipIdx k).map fun p => (f p.1, p.2) := by
  induction l generalizing k with
  | nil => rfl
  | cons a r ih => simp [List.zipIdx_cons, ih]

theorem runStart_mapF (g : Nat → Nat) (res : Nat → Option Nat) (inv : CallFn) (s : Option Nat) (st : Store) :
    runStart res inv (s.map g) st = runStart (fun f => res (g f)) inv s st := by
  cases s <;> rfl

/-- instantiation commutes with the renumbering -/
theorem instantiate_mapF (g : Nat → Nat) (m : ModuleM) (res : Nat → Option Nat) (inv : CallFn) :
    instantiate (mapFM g m) res inv = instantiate m (fun f => res (g f)) inv := by
  unfold instantiate
  simp only [mapFM, initGlobals_mapF]
  cases hg : initGlobals (fun f => res (g f)) _ m.globals with
  | none => rfl
  | some globals =>
    simp only
    have hitems : (m.elems.map (mapFElem g)).mapM (elemItems res globals) =
        m.elems.mapM (elemItems (fun f => res (g f)) globals) := by
      rw [List.mapM_map]
      apply mapM_congr
      intro e
      exact elemItems_mapF g res globals e
    rw [hitems]
    cases hi : m.elems.mapM (elemItems (fun f => res (g f)) globals) with
    | none => rfl
    | some items =>
      simp only
      have hd : (m.datas.map (mapFData g)).map (fun d => hexBytes d.bytes.toList) =
          m.datas.map (fun d => hexBytes d.bytes.toList) := by
        rw [List.map_map]
        apply List.map_congr_left
        intro d _
        simp [mapFData]
      rw [hd]
      simp only [zipIdx_map', List.foldl_map]
      have he : (fun x (y : ElemM × Nat) => elemStep res x (mapFElem g y.1, y.2)) =
          elemStep (fun f => res (g f)) := by
        funext x y; exact elemStep_mapF g res x y.1 y.2
      have hda : (fun x (y : DataM × Nat) => dataStep res x (mapFData g y.1, y.2)) =
          dataStep (fun f => res (g f)) := by
        funext x y; exact dataStep_mapF g res x y.1 y.2
      simp only [he, hda, runStart_mapF]


theorem mapFExport_name (g : Nat → Nat) (e : String × String × Nat) : (mapFExport g e).1 = e.1 := by
  unfold mapFExport; split <;> rfl

theorem mapFExport_kind (g : Nat → Nat) (e : String × String × Nat) : (mapFExport g e).2.1 = e.2.1 := by
  unfold mapFExport; split <;> rfl

theorem insertStr_map (g : Nat → Nat) (x : String × String × Nat) (l : List (String × String × Nat)) :
    insertStr (mapFExport g x) (l.map (mapFExport g)) = (insertStr x l).map (mapFExport g) := by
  induction l with
  | nil => rfl
  | cons y r ih =>
    simp only [List.map_cons, insertStr, mapFExport_name]
    split
    · simp
    · simp [ih]

theorem sorted_map (g : Nat → Nat) (l : List (String × String × Nat)) :
    (l.map (mapFExport g)).foldr insertStr [] = (l.foldr insertStr []).map (mapFExport g) := by
  induction l with
  | nil => rfl
  | cons x r ih => simp only [List.map_cons, List.foldr_cons, ih, insertStr_map]

theorem filter_f_map (g : Nat → Nat) (l : List (String × String × Nat)) :
    (l.map (mapFExport g)).filter (·.2.1 = "f") = (l.filter (·.2.1 = "f")).map (mapFExport g) := by
  induction l with
  | nil => rfl
  | cons x r ih =>
    simp only [List.map_cons, List.filter_cons, mapFExport_kind]
    split <;> simp [ih]

theorem mem_insertStr (x y : String × String × Nat) (l : List (String × String × Nat)) :
    y ∈ insertStr x l ↔ y = x ∨ y ∈ l := by
  induction l with
  | nil => simp [insertStr]
  | cons z r ih =>
    simp only [insertStr]
    split
    · simp
    · simp only [List.mem_cons, ih]
      constructor
      · rintro (h | h | h)
        · exact Or.inr (Or.inl h)
        · exact Or.inl h
        · exact Or.inr (Or.inr h)
      · rintro (h | h | h)
        · exact Or.inr (Or.inl h)
        · exact Or.inl h
        · exact Or.inr (Or.inr h)

theorem mem_sorted (y : String × String × Nat) (l : List (String × String × Nat)) :
    y ∈ l.foldr insertStr [] ↔ y ∈ l := by
  induction l with
  | nil => simp
  | cons x r ih => simp only [List.foldr_cons, mem_insertStr, ih, List.mem_cons]

theorem runCalls_mapF (g : Nat → Nat) (res : Nat → Option Nat) (US : List Sig) (inv : CallFn) :
    ∀ (script : List (String × Nat × Nat)) (st : Store) (acc : List String),
      runCalls res US inv (script.map fun t => (t.1, g t.2.1, t.2.2)) st acc =
      runCalls (fun f => res (g f)) US inv script st acc
  | [], st, acc => rfl
  | (name, f, sd) :: rest, st, acc => by
      simp only [List.map_cons, runCalls]
      cases h : (res (g f)).bind fun u => (US[u]?).map fun sg => (u, sg) with
      | none => rfl
      | some p =>
        obtain ⟨u, sg⟩ := p
        simp only
        cases inv u _ st with
        | ok rs st' => exact runCalls_mapF g res US inv rest st' _
        | trap w st' => exact runCalls_mapF g res US inv rest st' _
        | oog => rfl
        | unsup w => rfl

theorem showState_mapF (g : Nat → Nat) (m : ModuleM) (US : List Sig) (st : Store) :
    showState (mapFM g m) US st = showState m US st := by
  unfold showState
  simp only [mapFM, sorted_map, List.filterMap_map]
  congr 1
  have hfun : ∀ e : String × String × Nat,
      ((fun e : String × String × Nat =>
        if e.2.1 = "g" then (st.globals[e.2.2]?).map fun v => s!"{e.1}:g={showTabEntry US v}"
        else if e.2.1 = "m" then (st.mems[e.2.2]?).map fun mm => s!"{e.1}:m=[{showMem mm}]"
        else if e.2.1 = "t" then (st.tabs[e.2.2]?).map fun tb => s!"{e.1}:t=[" ++ join "," (tb.elems.map (showTabEntry US)) ++ "]"
        else none) ∘ mapFExport g) e =
      (fun e : String × String × Nat =>
        if e.2.1 = "g" then (st.globals[e.2.2]?).map fun v => s!"{e.1}:g={showTabEntry US v}"
        else if e.2.1 = "m" then (st.mems[e.2.2]?).map fun mm => s!"{e.1}:m=[{showMem mm}]"
        else if e.2.1 = "t" then (st.tabs[e.2.2]?).map fun tb => s!"{e.1}:t=[" ++ join "," (tb.elems.map (showTabEntry US)) ++ "]"
        else none) e := by
    intro e
    simp only [Function.comp, mapFExport_kind, mapFExport_name]
    by_cases hf : e.2.1 = "f"
    · simp [hf]
    · simp [mapFExport, hf]
  rw [funext hfun]

/-- **the observation commutes with the renumbering of the function indices in the non-code
    sections**: renumbering them by `g` and resolving by `res` is the same as resolving by `res ∘ g` -/
theorem observeWith_mapF (g : Nat → Nat) (m : ModuleM) (res : Nat → Option Nat) (US : List Sig) (inv : CallFn)
    (seed rounds : Nat) :
    observeWith (mapFM g m) res US inv seed rounds = observeWith m (fun f => res (g f)) US inv seed rounds := by
  unfold observeWith
  rw [instantiate_mapF]
  cases instantiate m (fun f => res (g f)) inv with
  | fail w => rfl
  | ok st0 =>
    simp only [showState_mapF]
    have hex : ((mapFM g m).exports.filter (·.2.1 = "f")).foldr insertStr [] =
        ((m.exports.filter (·.2.1 = "f")).foldr insertStr []).map (mapFExport g) := by
      simp only [mapFM, filter_f_map, sorted_map]
    rw [hex]
    have hscript : ∀ r : Nat,
        ((((m.exports.filter (·.2.1 = "f")).foldr insertStr []).map (mapFExport g)).zipIdx.map fun p =>
          (p.1.1, p.1.2.2, lcg (seed + r * 104729 + p.2 * 1299709))) =
        ((((m.exports.filter (·.2.1 = "f")).foldr insertStr []).zipIdx.map fun p =>
          (p.1.1, p.1.2.2, lcg (seed + r * 104729 + p.2 * 1299709))).map fun t => (t.1, g t.2.1, t.2.2)) := by
      intro r
      rw [zipIdx_map', List.map_map, List.map_map]
      apply List.map_congr_left
      intro p hp
      have hmem : p.1 ∈ (m.exports.filter (·.2.1 = "f")).foldr insertStr [] := by
        have := List.mem_zipIdx' hp
        rw [this.2]
        exact List.getElem_mem _
      have hk : p.1.2.1 = "f" := by
        have := (mem_sorted p.1 _).1 hmem
        simpa using (List.mem_filter.1 this).2
      simp [Function.comp, mapFExport, hk]
    simp only [hscript]
    rw [← List.map_flatMap, runCalls_mapF]

end Walrus.Sem
