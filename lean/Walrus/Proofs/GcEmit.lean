import Walrus.Proofs.GcFuel
import Walrus.Proofs.FuncSigs
import Walrus.Props.C02

/-!
After the GC pass, the sections that refer to functions find an index for every function they
name (C02: "no entity that is still referenced may be left without an emitted index"), for every
module whose references are in range.
-/
namespace Walrus

/-- every kept local function is among the emitted ones -/
theorem emitCodeWith_has_kept (c : InCode) (pfs : List ParsedFunc) (k : Keep) (oc : OutCode)
    (h : emitCodeWith c pfs k = some oc) (pf : ParsedFunc) (hpf : pf ∈ pfs) (hk : k.funcs.contains pf.id = true) :
    pf.id ∈ oc.funcs.map (·.id) := by
  unfold emitCodeWith at h
  simp only [Option.map_eq_some_iff] at h
  obtain ⟨fs, hfs, rfl⟩ := h
  simp only
  -- pf sits somewhere in the sorted list
  have hmem : (pf, funcSize (PSeqs.toArena pf.seqs) 0) ∈
      sortBy (fun a b => decide (a.2 > b.2) || (a.2 == b.2 && decide (a.1.id ≤ b.1.id)))
        ((pfs.filter fun f => k.funcs.contains f.id).map fun f => (f, funcSize (PSeqs.toArena f.seqs) 0)) := by
    rw [mem_sortBy, List.mem_map]
    exact ⟨pf, List.mem_filter.2 ⟨hpf, hk⟩, rfl⟩
  obtain ⟨j, hj⟩ := List.getElem?_of_mem hmem
  obtain ⟨f', hf', hfe⟩ := mapM_some_get _ _ _ hfs j _ hj
  have hid : f'.id = pf.id := by
    split at hfe
    · injection hfe with hfe; subst hfe; rfl
    · cases hfe
  rw [List.mem_map]
  exact ⟨f', List.mem_of_getElem? hf', hid⟩

/-- the code slice of a module, as `mkGcInfo` and `gcRoundTrip` build it -/
def codeOf (m : ModuleM) : InCode :=
  ⟨m.sigs, importedCount m "f", m.code.zip m.funcs |>.map fun p => ⟨p.2, p.1.1, p.1.2⟩⟩

theorem mkGcInfo_spec (m : ModuleM) (g : GcInfo) (h : mkGcInfo m = some g) :
    parseCode (codeOf m) = some g.pfs ∧ g.m = m ∧ g.nif = importedCount m "f" := by
  unfold mkGcInfo at h
  simp only [Option.map_eq_some_iff] at h
  obtain ⟨pfs, hp, rfl⟩ := h
  exact ⟨hp, rfl, rfl⟩

theorem codeOf_funcs_length (m : ModuleM) (hlen : m.code.length = m.funcs.length) :
    (codeOf m).funcs.length = m.funcs.length := by
  simp [codeOf, hlen]

/-- **every kept function has an index in the function map the emitter builds after GC** -/
theorem gc_funcMap_total (m : ModuleM) (g : GcInfo) (hg : mkGcInfo m = some g)
    (hlen : m.code.length = m.funcs.length) (ky : List Nat) (other : IdMaps) (oc : OutCode)
    (hoc : emitCodeWith (codeOf m) g.pfs ⟨keptOf (usedSet g) "f" (g.nif + m.funcs.length), ky, other⟩ = some oc)
    (f : Nat) (hf : ("f", f) ∈ usedSet g) (hr : f < g.nif + m.funcs.length) :
    (assoc ((((List.range g.nif).filter (keptOf (usedSet g) "f" (g.nif + m.funcs.length)).contains).zipIdx.map
        (fun p => (p.1, p.2))) ++
      oc.funcs.zipIdx.map (fun p => (p.1.id,
        ((List.range g.nif).filter (keptOf (usedSet g) "f" (g.nif + m.funcs.length)).contains).length + p.2))) f).isSome = true := by
  obtain ⟨hp, hm, hnif⟩ := mkGcInfo_spec m g hg
  have hkept : f ∈ keptOf (usedSet g) "f" (g.nif + m.funcs.length) := (mem_keptOf _ _ _ _).2 ⟨hr, hf⟩
  apply C02.funcMap_lookup
  by_cases hi : f < g.nif
  · left
    rw [List.mem_filter]
    exact ⟨List.mem_range.2 hi, by simpa using hkept⟩
  · right
    -- the parsed function with this id
    obtain ⟨hl, hspec⟩ := parseCode_spec (codeOf m) g.pfs hp
    have hk : f - g.nif < (codeOf m).funcs.length := by
      rw [codeOf_funcs_length m hlen]; omega
    obtain ⟨pf, hpf, hid, _⟩ := hspec (f - g.nif) (codeOf m).funcs[f - g.nif] (by simp [hk])
    have hid' : pf.id = f := by
      rw [hid]; simp only [codeOf]; rw [← hnif]; omega
    have := emitCodeWith_has_kept (codeOf m) g.pfs _ oc hoc pf (List.mem_of_getElem? hpf)
      (by simpa [hid'] using hkept)
    rw [hid'] at this
    exact this

theorem mem_entUniverse (g : GcInfo) (sp : String) (i : Nat) (h : (sp, i) ∈ entUniverse g) :
    (sp = "f" ∧ i < g.nif + g.pfs.length) ∨ (sp = "t" ∧ i < g.nit + g.m.tables.length) ∨
    (sp = "m" ∧ i < g.nim + g.m.mems.length) ∨ (sp = "g" ∧ i < g.nig + g.m.globals.length) ∨
    (sp = "e" ∧ i < g.m.elems.length) ∨ (sp = "d" ∧ i < g.m.datas.length) ∨
    (sp = "y" ∧ i < (distinctSigs g.m.sigs).length + g.pfs.length) := by
  simp only [entUniverse, List.mem_append, List.mem_map, List.mem_range, Prod.mk.injEq] at h
  rcases h with (((((h | h) | h) | h) | h) | h) | h <;> obtain ⟨a, ha, rfl, rfl⟩ := h <;> simp [ha]

/-- the maps `gcRoundTrip` uses for everything outside the code section -/
def gcMaps (g : GcInfo) (m : ModuleM) (funcMap tyMap : List (Nat × Nat)) : IdMaps :=
  let u := usedSet g
  { tables := compact (keptOf u "t" (g.nit + m.tables.length)), mems := compact (keptOf u "m" (g.nim + m.mems.length)),
    globals := compact (keptOf u "g" (g.nig + m.globals.length)), elems := compact (keptOf u "e" m.elems.length),
    datas := compact (keptOf u "d" m.datas.length), funcs := funcMap, types := tyMap }

/-- an entity of the table, memory, global, element or data space that is used and in range has an
    index in the maps; a function has one if the function map has -/
theorem gcMaps_get (g : GcInfo) (m : ModuleM) (hm : g.m = m) (funcMap tyMap : List (Nat × Nat)) (sp : String) (i : Nat)
    (hu : (sp, i) ∈ usedSet g) (hr : (sp, i) ∈ entUniverse g) (hy : sp ≠ "y")
    (hf : sp = "f" → (assoc funcMap i).isSome = true) :
    ((gcMaps g m funcMap tyMap).get sp i).isSome = true := by
  subst hm
  rcases mem_entUniverse g sp i hr with h | h | h | h | h | h | h
  · obtain ⟨rfl, _⟩ := h
    simpa [gcMaps, IdMaps.get] using hf rfl
  · obtain ⟨rfl, hi⟩ := h
    simpa [gcMaps, IdMaps.get] using C02.kept_has_index _ "t" _ i hi hu
  · obtain ⟨rfl, hi⟩ := h
    simpa [gcMaps, IdMaps.get] using C02.kept_has_index _ "m" _ i hi hu
  · obtain ⟨rfl, hi⟩ := h
    simpa [gcMaps, IdMaps.get] using C02.kept_has_index _ "g" _ i hi hu
  · obtain ⟨rfl, hi⟩ := h
    simpa [gcMaps, IdMaps.get] using C02.kept_has_index _ "e" _ i hi hu
  · obtain ⟨rfl, hi⟩ := h
    simpa [gcMaps, IdMaps.get] using C02.kept_has_index _ "d" _ i hi hu
  · exact absurd h.1 hy

/-- the function map `gcRoundTrip` builds from the emitted code -/
def gcFuncMap (g : GcInfo) (m : ModuleM) (oc : OutCode) : List (Nat × Nat) :=
  let kf := keptOf (usedSet g) "f" (g.nif + m.funcs.length)
  let keptImpF := (List.range g.nif).filter kf.contains
  keptImpF.zipIdx.map (fun p => (p.1, p.2)) ++ oc.funcs.zipIdx.map (fun p => (p.1.id, keptImpF.length + p.2))

theorem pfs_length (m : ModuleM) (g : GcInfo) (hg : mkGcInfo m = some g) (hlen : m.code.length = m.funcs.length) :
    g.pfs.length = m.funcs.length := by
  obtain ⟨hp, _, _⟩ := mkGcInfo_spec m g hg
  rw [(parseCode_spec (codeOf m) g.pfs hp).1, codeOf_funcs_length m hlen]

/-- a used function that exists has an index in `gcFuncMap` -/
theorem gcFuncMap_total (m : ModuleM) (g : GcInfo) (hg : mkGcInfo m = some g)
    (hlen : m.code.length = m.funcs.length) (ky : List Nat) (other : IdMaps) (oc : OutCode)
    (hoc : emitCodeWith (codeOf m) g.pfs ⟨keptOf (usedSet g) "f" (g.nif + m.funcs.length), ky, other⟩ = some oc)
    (f : Nat) (hf : ("f", f) ∈ usedSet g) (hr : ("f", f) ∈ entUniverse g) :
    (assoc (gcFuncMap g m oc) f).isSome = true := by
  rcases mem_entUniverse g "f" f hr with h | h | h | h | h | h | h
  · exact gc_funcMap_total m g hg hlen ky other oc hoc f hf (by rw [← pfs_length m g hg hlen]; exact h.2)
  all_goals exact absurd h.1 (by decide)

/-- **exports and the start section find their indices after GC**: for every module whose
    references are in range, once the code section has been emitted -/
theorem gc_exports_and_start_emit (m : ModuleM) (g : GcInfo) (hg : mkGcInfo m = some g)
    (hlen : m.code.length = m.funcs.length) (hw : gcWF g = true) (ky : List Nat) (other : IdMaps) (oc : OutCode)
    (hoc : emitCodeWith (codeOf m) g.pfs ⟨keptOf (usedSet g) "f" (g.nif + m.funcs.length), ky, other⟩ = some oc)
    (tyMap : List (Nat × Nat)) (hk : ∀ e ∈ m.exports, e.2.1 ≠ "y") :
    (gcExportsOut m (gcMaps g m (gcFuncMap g m oc) tyMap)).isSome = true ∧
    (gcStartOut m (gcFuncMap g m oc)).isSome = true := by
  unfold gcExportsOut gcStartOut
  have hd := gcWF_finishes g hw
  obtain ⟨_, hm, _⟩ := mkGcInfo_spec m g hg
  simp only [gcWF, Bool.and_eq_true, List.all_eq_true, List.contains_eq_mem, decide_eq_true_eq] at hw
  constructor
  · rw [C02.mapM_isSome_iff]
    intro e he
    rw [Option.isSome_map]
    have hroot : (e.2.1, e.2.2) ∈ gcRoots g := by
      unfold gcRoots
      simp only [List.mem_append, List.mem_map]
      exact Or.inl (Or.inl (Or.inl (Or.inl ⟨e, by rw [hm]; exact he, rfl⟩)))
    have hu := usedSet_roots g hd _ hroot
    have hr := hw.1 _ hroot
    exact gcMaps_get g m hm _ tyMap e.2.1 e.2.2 hu hr (hk e he)
      (fun hf => gcFuncMap_total m g hg hlen ky other oc hoc e.2.2 (by rw [← hf]; exact hu) (by rw [← hf]; exact hr))
  · cases hs : m.start with
    | none => rfl
    | some s =>
      simp only [Option.isSome_map]
      have hroot : ("f", s) ∈ gcRoots g := by
        unfold gcRoots
        simp only [List.mem_append, List.mem_map]
        exact Or.inl (Or.inl (Or.inl (Or.inr ⟨s, by rw [hm]; simp [hs], rfl⟩)))
      exact gcFuncMap_total m g hg hlen ky other oc hoc s (usedSet_roots g hd _ hroot) (hw.1 _ hroot)

/-- constant expressions name globals and functions only -/
def cexprWF (c : CExprM) : Prop := ∀ op ∈ c, ∀ sp id, Arg.ref sp id ∈ op.args → sp = "g" ∨ sp = "f"

theorem mem_refsOfCExpr (c : CExprM) (hc : cexprWF c) (op : Op) (hop : op ∈ c) (sp : String) (id : Nat)
    (h : Arg.ref sp id ∈ op.args) : (sp, id) ∈ refsOfCExpr c := by
  unfold refsOfCExpr
  simp only [List.mem_flatMap, List.mem_filterMap]
  refine ⟨op, hop, .ref sp id, h, ?_⟩
  rcases hc op hop sp id h with rfl | rfl <;> simp

theorem mem_usedSet_closure (g : GcInfo) (x : Ent) (h : x ∈ usedSet g) :
    x ∈ closure (gcSucc g) (universeSize g * universeSize g + 16) (gcRoots g).eraseDups [] ∨ x = ("m", 0) := by
  unfold usedSet at h
  simp only at h
  split at h
  · rcases List.mem_append.1 h with h | h
    · exact Or.inl h
    · simp at h; exact Or.inr h
  · exact Or.inl h

/-- **a constant expression of a kept entity finds an index for everything it names** -/
theorem gc_cexpr_emit (m : ModuleM) (g : GcInfo) (hg : mkGcInfo m = some g)
    (hlen : m.code.length = m.funcs.length) (hw : gcWF g = true) (ky : List Nat) (other : IdMaps) (oc : OutCode)
    (hoc : emitCodeWith (codeOf m) g.pfs ⟨keptOf (usedSet g) "f" (g.nif + m.funcs.length), ky, other⟩ = some oc)
    (tyMap : List (Nat × Nat)) (x : Ent) (hx : x ∈ usedSet g) (hxm : x ≠ ("m", 0)) (hxu : x ∈ entUniverse g)
    (c : CExprM) (hc : cexprWF c) (hsub : ∀ y ∈ refsOfCExpr c, y ∈ gcSucc g x) :
    (mapCExpr (gcMaps g m (gcFuncMap g m oc) tyMap) c).isSome = true := by
  have hd := gcWF_finishes g hw
  obtain ⟨_, hm, _⟩ := mkGcInfo_spec m g hg
  simp only [gcWF, Bool.and_eq_true, List.all_eq_true, List.contains_eq_mem, decide_eq_true_eq] at hw
  have hcl := (mem_usedSet_closure g x hx).resolve_right hxm
  rw [C02.mapCExpr_isSome_iff]
  intro op hop sp id href
  have hy := hsub _ (mem_refsOfCExpr c hc op hop sp id href)
  have hu := usedSet_closed g hd x (sp, id) hcl hy
  have hr := hw.2 x hxu (sp, id) hy
  exact gcMaps_get g m hm _ tyMap sp id hu hr (by rcases hc op hop sp id href with rfl | rfl <;> decide)
    (fun hf => gcFuncMap_total m g hg hlen ky other oc hoc id (by rw [← hf]; exact hu) (by rw [← hf]; exact hr))

theorem in_universe_g (g : GcInfo) (i : Nat) (h : i < g.nig + g.m.globals.length) : ("g", i) ∈ entUniverse g := by
  simp only [entUniverse, List.mem_append, List.mem_map, List.mem_range, Prod.mk.injEq]
  exact Or.inl (Or.inl (Or.inl (Or.inr ⟨i, h, trivial, rfl⟩)))

theorem in_universe_d (g : GcInfo) (i : Nat) (h : i < g.m.datas.length) : ("d", i) ∈ entUniverse g := by
  simp only [entUniverse, List.mem_append, List.mem_map, List.mem_range, Prod.mk.injEq]
  exact Or.inl (Or.inr ⟨i, h, trivial, rfl⟩)

theorem in_universe_e (g : GcInfo) (i : Nat) (h : i < g.m.elems.length) : ("e", i) ∈ entUniverse g := by
  simp only [entUniverse, List.mem_append, List.mem_map, List.mem_range, Prod.mk.injEq]
  exact Or.inl (Or.inl (Or.inr ⟨i, h, trivial, rfl⟩))

theorem mem_zipIdx_filter {α : Type} (l : List α) (P : Nat → Bool) (x : α)
    (h : x ∈ (l.zipIdx.filter fun p => P p.2).map (·.1)) : ∃ k, l[k]? = some x ∧ P k = true := by
  simp only [List.mem_map, List.mem_filter] at h
  obtain ⟨p, ⟨hp, hP⟩, rfl⟩ := h
  have := List.mem_zipIdx hp
  refine ⟨p.2, ?_, hP⟩
  have h1 := this.2.2
  simp only [Nat.sub_zero] at h1
  rw [List.getElem?_eq_some_iff]
  exact ⟨by simpa using this.2.1, h1.symm⟩

/-- **the initialisers of the kept globals emit** -/
theorem gc_globals_emit (m : ModuleM) (g : GcInfo) (hg : mkGcInfo m = some g)
    (hlen : m.code.length = m.funcs.length) (hw : gcWF g = true) (ky : List Nat) (other : IdMaps) (oc : OutCode)
    (hoc : emitCodeWith (codeOf m) g.pfs ⟨keptOf (usedSet g) "f" (g.nif + m.funcs.length), ky, other⟩ = some oc)
    (tyMap : List (Nat × Nat)) (hc : ∀ gl ∈ m.globals, cexprWF gl.2) :
    (gcGlobalsOut m g.nig (keptOf (usedSet g) "g" (g.nig + m.globals.length))
      (gcMaps g m (gcFuncMap g m oc) tyMap)).isSome = true := by
  unfold gcGlobalsOut
  obtain ⟨_, hm, _⟩ := mkGcInfo_spec m g hg
  rw [C02.mapM_isSome_iff]
  intro gl hgl
  rw [Option.isSome_map]
  obtain ⟨k, hk, hP⟩ := mem_zipIdx_filter m.globals
    (fun j => (keptOf (usedSet g) "g" (g.nig + m.globals.length)).contains (g.nig + j)) gl hgl
  have hkept : g.nig + k ∈ keptOf (usedSet g) "g" (g.nig + m.globals.length) := by simpa using hP
  have hku := (mem_keptOf _ _ _ _).1 hkept
  have hklt : k < m.globals.length := (List.getElem?_eq_some_iff.1 hk).1
  apply gc_cexpr_emit m g hg hlen hw ky other oc hoc tyMap ("g", g.nig + k) hku.2 (by simp)
    (in_universe_g g _ (by rw [hm]; omega)) gl.2 (hc gl (List.mem_of_getElem? hk))
  intro y hy
  have hnot : ¬ (g.nig + k < g.nig) := by omega
  have hget : g.m.globals[g.nig + k - g.nig]? = some gl := by rw [hm]; simpa using hk
  simp only [gcSucc, hnot, if_false, hget]
  exact hy

/-- segment offsets name globals only -/
def offsetWF (c : CExprM) : Prop := ∀ op ∈ c, ∀ sp id, Arg.ref sp id ∈ op.args → sp = "g"

theorem offsetWF_cexprWF (c : CExprM) (h : offsetWF c) : cexprWF c :=
  fun op hop sp id hr => Or.inl (h op hop sp id hr)

theorem refs_of_offset (c : CExprM) (h : offsetWF c) (y : Ent) (hy : y ∈ refsOfCExpr c) :
    y ∈ (refsOfCExpr c).filter (·.1 = "g") := by
  rw [List.mem_filter]
  refine ⟨hy, ?_⟩
  unfold refsOfCExpr at hy
  simp only [List.mem_flatMap, List.mem_filterMap] at hy
  obtain ⟨op, hop, a, ha, hs⟩ := hy
  cases a with
  | ref sp n =>
    have := h op hop sp n ha
    subst this
    simp at hs
    subst hs
    simp
  | num _ => simp at hs
  | imm _ => simp at hs
  | bt _ => simp at hs

/-- **the kept data segments emit**: the memory of an active segment has an index, its offset
    expression finds its globals -/
theorem gc_datas_emit (m : ModuleM) (g : GcInfo) (hg : mkGcInfo m = some g)
    (hlen : m.code.length = m.funcs.length) (hw : gcWF g = true) (ky : List Nat) (other : IdMaps) (oc : OutCode)
    (hoc : emitCodeWith (codeOf m) g.pfs ⟨keptOf (usedSet g) "f" (g.nif + m.funcs.length), ky, other⟩ = some oc)
    (tyMap : List (Nat × Nat))
    (hc : ∀ d ∈ m.datas, ∀ mem off, d.mode = .active mem off → offsetWF off) :
    (gcDatasOut m (keptOf (usedSet g) "d" m.datas.length) (gcMaps g m (gcFuncMap g m oc) tyMap)).isSome = true := by
  unfold gcDatasOut
  have hd := gcWF_finishes g hw
  obtain ⟨_, hm, _⟩ := mkGcInfo_spec m g hg
  have hw' := hw
  simp only [gcWF, Bool.and_eq_true, List.all_eq_true, List.contains_eq_mem, decide_eq_true_eq] at hw'
  rw [C02.mapM_isSome_iff]
  intro d hdm
  obtain ⟨k, hk, hP⟩ := mem_zipIdx_filter m.datas (fun j => (keptOf (usedSet g) "d" m.datas.length).contains j) d hdm
  have hku := (mem_keptOf _ _ _ _).1 (by simpa using hP : k ∈ keptOf (usedSet g) "d" m.datas.length)
  have hxu : ("d", k) ∈ entUniverse g := in_universe_d g k (by rw [hm]; exact hku.1)
  cases hmode : d.mode with
  | passive => simp [rtData, hmode]
  | active mem off =>
    have hget : g.m.datas[k]? = some d := by rw [hm]; exact hk
    have hsucc : gcSucc g ("d", k) = ("m", mem) :: (refsOfCExpr off).filter (·.1 = "g") := by
      obtain ⟨fl, md, by_⟩ := d
      simp only at hmode
      subst hmode
      simp [gcSucc, hget]
    have hcl := (mem_usedSet_closure g _ hku.2).resolve_right (by simp)
    -- the memory
    have hmu : ("m", mem) ∈ usedSet g := usedSet_closed g hd _ _ hcl (by rw [hsucc]; exact List.mem_cons_self)
    have hmr : ("m", mem) ∈ entUniverse g := hw'.2 _ hxu _ (by rw [hsucc]; exact List.mem_cons_self)
    have hmem := gcMaps_get g m hm (gcFuncMap g m oc) tyMap "m" mem hmu hmr (by decide) (by intro h; exact absurd h (by decide))
    have hmem' : (assoc (gcMaps g m (gcFuncMap g m oc) tyMap).mems mem).isSome = true := by
      simpa [IdMaps.get, gcMaps] using hmem
    -- the offset
    have hoff := gc_cexpr_emit m g hg hlen hw ky other oc hoc tyMap ("d", k) hku.2 (by simp) hxu off
      (offsetWF_cexprWF off (hc d (List.mem_of_getElem? hk) mem off hmode))
      (by intro y hy; rw [hsucc]; exact List.mem_cons_of_mem _ (refs_of_offset off (hc d (List.mem_of_getElem? hk) mem off hmode) y hy))
    cases ha : assoc (gcMaps g m (gcFuncMap g m oc) tyMap).mems mem with
    | none => simp [ha] at hmem'
    | some mm =>
      cases ho : mapCExpr (gcMaps g m (gcFuncMap g m oc) tyMap) off with
      | none => simp [ho] at hoff
      | some o => simp [ha, rtData, ho]

theorem rtElem_isSome (funcMap : List (Nat × Nat)) (maps : IdMaps) (e : ElemM)
    (hmode : ∀ t off, e.mode = .active t off → (mapCExpr maps off).isSome = true)
    (hfs : ∀ fs, e.items = .funcs fs → ∀ f ∈ fs, (assoc funcMap f).isSome = true)
    (hes : ∀ ty es, e.items = .exprs ty es → ∀ c ∈ es, (mapCExpr maps c).isSome = true) :
    (rtElem funcMap maps e).isSome = true := by
  obtain ⟨fl, md, it⟩ := e
  simp only at hmode hfs hes
  cases it with
  | funcs fs =>
    obtain ⟨x, hx⟩ := Option.isSome_iff_exists.1 ((C02.mapM_isSome_iff _ fs).2 (hfs fs rfl))
    cases md with
    | active t off =>
      obtain ⟨o, ho⟩ := Option.isSome_iff_exists.1 (hmode t off rfl)
      simp [rtElem, ho, hx]
    | passive => simp [rtElem, hx]
    | declared => simp [rtElem, hx]
  | exprs ty es =>
    obtain ⟨x, hx⟩ := Option.isSome_iff_exists.1 ((C02.mapM_isSome_iff _ es).2 (hes ty es rfl))
    cases md with
    | active t off =>
      obtain ⟨o, ho⟩ := Option.isSome_iff_exists.1 (hmode t off rfl)
      simp [rtElem, ho, hx]
    | passive => simp [rtElem, hx]
    | declared => simp [rtElem, hx]

/-- **the kept element segments emit**: the table of an active segment has an index, its offset
    finds its globals, every function item has a function index, every expression item finds what
    it names -/
theorem gc_elems_emit (m : ModuleM) (g : GcInfo) (hg : mkGcInfo m = some g)
    (hlen : m.code.length = m.funcs.length) (hw : gcWF g = true) (ky : List Nat) (other : IdMaps) (oc : OutCode)
    (hoc : emitCodeWith (codeOf m) g.pfs ⟨keptOf (usedSet g) "f" (g.nif + m.funcs.length), ky, other⟩ = some oc)
    (tyMap : List (Nat × Nat))
    (hoff : ∀ e ∈ m.elems, ∀ t off, e.mode = .active t off → offsetWF off)
    (hitems : ∀ e ∈ m.elems, ∀ ty es, e.items = .exprs ty es → ∀ c ∈ es, cexprWF c) :
    (gcElemsOut m (keptOf (usedSet g) "e" m.elems.length) (gcFuncMap g m oc)
      (gcMaps g m (gcFuncMap g m oc) tyMap)).isSome = true := by
  unfold gcElemsOut
  have hd := gcWF_finishes g hw
  obtain ⟨_, hm, _⟩ := mkGcInfo_spec m g hg
  have hw' := hw
  simp only [gcWF, Bool.and_eq_true, List.all_eq_true, List.contains_eq_mem, decide_eq_true_eq] at hw'
  rw [C02.mapM_isSome_iff]
  intro e hem
  obtain ⟨k, hk, hP⟩ := mem_zipIdx_filter m.elems (fun j => (keptOf (usedSet g) "e" m.elems.length).contains j) e hem
  have hku := (mem_keptOf _ _ _ _).1 (by simpa using hP : k ∈ keptOf (usedSet g) "e" m.elems.length)
  have hxu : ("e", k) ∈ entUniverse g := in_universe_e g k (by rw [hm]; exact hku.1)
  have hget : g.m.elems[k]? = some e := by rw [hm]; exact hk
  have hcl := (mem_usedSet_closure g _ hku.2).resolve_right (by simp)
  have hein : e ∈ m.elems := List.mem_of_getElem? hk
  -- successors of the segment
  have s_funcs : ∀ fs, e.items = .funcs fs → ∀ f ∈ fs, ("f", f) ∈ gcSucc g ("e", k) := by
    intro fs hi f hf
    simp only [gcSucc, hget, hi, List.mem_append, List.mem_map]
    exact Or.inl ⟨f, hf, rfl⟩
  have s_exprs : ∀ ty es, e.items = .exprs ty es → ∀ c ∈ es, ∀ y ∈ refsOfCExpr c, y ∈ gcSucc g ("e", k) := by
    intro ty es hi c hc y hy
    simp only [gcSucc, hget, hi, List.mem_append, List.mem_flatMap]
    exact Or.inl ⟨c, hc, hy⟩
  have s_tab : ∀ t off, e.mode = .active t off → ("t", t.getD 0) ∈ gcSucc g ("e", k) := by
    intro t off hmo
    simp only [gcSucc, hget, hmo, List.mem_append]
    exact Or.inr (Or.inr (by simp))
  have s_off : ∀ t off, e.mode = .active t off → ∀ y ∈ (refsOfCExpr off).filter (·.1 = "g"), y ∈ gcSucc g ("e", k) := by
    intro t off hmo y hy
    simp only [gcSucc, hget, hmo, List.mem_append]
    exact Or.inr (Or.inl hy)
  have used_of : ∀ y, y ∈ gcSucc g ("e", k) → y ∈ usedSet g ∧ y ∈ entUniverse g :=
    fun y hy => ⟨usedSet_closed g hd _ y hcl hy, hw'.2 _ hxu y hy⟩
  -- items
  have hfs : ∀ fs, e.items = .funcs fs → ∀ f ∈ fs, (assoc (gcFuncMap g m oc) f).isSome = true := by
    intro fs hi f hf
    have hy : ("f", f) ∈ gcSucc g ("e", k) := s_funcs fs hi f hf
    exact gcFuncMap_total m g hg hlen ky other oc hoc f (used_of _ hy).1 (used_of _ hy).2
  have hes : ∀ ty es, e.items = .exprs ty es → ∀ c ∈ es,
      (mapCExpr (gcMaps g m (gcFuncMap g m oc) tyMap) c).isSome = true := by
    intro ty es hi c hc
    apply gc_cexpr_emit m g hg hlen hw ky other oc hoc tyMap ("e", k) hku.2 (by simp) hxu c (hitems e hein ty es hi c hc)
    intro y hy
    exact s_exprs ty es hi c hc y hy
  cases hmode : e.mode with
  | passive =>
    simp only [Option.bind_some]
    exact rtElem_isSome _ _ e (by intro t off h; rw [hmode] at h; cases h) hfs hes
  | declared =>
    simp only [Option.bind_some]
    exact rtElem_isSome _ _ e (by intro t off h; rw [hmode] at h; cases h) hfs hes
  | active t off =>
    have hyt : ("t", t.getD 0) ∈ gcSucc g ("e", k) := s_tab t off hmode
    have htab := gcMaps_get g m hm (gcFuncMap g m oc) tyMap "t" (t.getD 0) (used_of _ hyt).1 (used_of _ hyt).2
      (by decide) (by intro h; exact absurd h (by decide))
    have htab' : (assoc (gcMaps g m (gcFuncMap g m oc) tyMap).tables (t.getD 0)).isSome = true := by
      simpa [IdMaps.get, gcMaps] using htab
    obtain ⟨t', ht'⟩ := Option.isSome_iff_exists.1 htab'
    have hoffe := gc_cexpr_emit m g hg hlen hw ky other oc hoc tyMap ("e", k) hku.2 (by simp) hxu off
      (offsetWF_cexprWF off (hoff e hein t off hmode))
      (by intro y hy; exact s_off t off hmode y (refs_of_offset off (hoff e hein t off hmode) y hy))
    simp only [ht', Option.map_some, Option.bind_some]
    exact rtElem_isSome _ _ _ (by intro t2 off2 h; simp only [ElemModeM.active.injEq] at h; rw [← h.2]; exact hoffe)
      (by simpa using hfs) (by simpa using hes)

/-! ### imports -/

def funcImportTypes (imports : List (String × String × ImportDescM)) : List Nat :=
  imports.filterMap fun i => match i.2.2 with | .func t => some t | _ => none

def funcImportPositions (imports : List (String × String × ImportDescM)) (start : Nat) : List Nat :=
  (imports.zipIdx start).filterMap fun p => match p.1.2.2 with | .func _ => some p.2 | _ => none

theorem filterMap_ext' {α β : Type} (f g : α → Option β) (h : ∀ x, f x = g x) : ∀ (l : List α),
    l.filterMap f = l.filterMap g
  | [] => rfl
  | a :: r => by simp [List.filterMap_cons, h a, filterMap_ext' f g h r]

theorem importPositions_f (m : ModuleM) : importPositions m "f" = funcImportPositions m.imports 0 := by
  unfold importPositions funcImportPositions
  apply filterMap_ext'
  intro p
  cases p.1.2.2 <;> simp

theorem funcImportPositions_ge (l : List (String × String × ImportDescM)) : ∀ (start x : Nat),
    x ∈ funcImportPositions l start → start ≤ x := by
  induction l with
  | nil => intro start x h; simp [funcImportPositions] at h
  | cons i r ih =>
    intro start x h
    simp only [funcImportPositions, List.zipIdx_cons, List.filterMap_cons] at h
    cases hi : i.2.2 <;> simp only [hi] at h
    · rcases List.mem_cons.1 h with h | h
      · omega
      · have := ih (start + 1) x h; omega
    all_goals (have := ih (start + 1) x h; omega)

/-- the `j`-th function import, counted by position, has the `j`-th function-import type -/
theorem funcImport_type (l : List (String × String × ImportDescM)) : ∀ (start : Nat) (p : (String × String × ImportDescM) × Nat) (t : Nat),
    p ∈ l.zipIdx start → p.1.2.2 = .func t →
    (funcImportTypes l)[(funcImportPositions l start).idxOf p.2]? = some t := by
  induction l with
  | nil => intro start p t h; simp at h
  | cons i r ih =>
    intro start p t hp hf
    simp only [List.zipIdx_cons, List.mem_cons] at hp
    rcases hp with rfl | hp
    · simp only at hf
      simp [funcImportTypes, funcImportPositions, hf]
    · have hge : start + 1 ≤ p.2 := by
        have := List.mem_zipIdx hp
        omega
      have ih' := ih (start + 1) p t hp hf
      simp only [funcImportTypes, funcImportPositions, List.zipIdx_cons, List.filterMap_cons]
      cases hi : i.2.2 with
      | func t0 =>
        simp only []
        have hne : start ≠ p.2 := by omega
        have hbeq : (start == p.2) = false := by simpa using hne
        rw [List.idxOf_cons, hbeq]
        simpa [funcImportTypes, funcImportPositions] using ih'
      | table _ => simpa [funcImportTypes, funcImportPositions] using ih'
      | mem _ => simpa [funcImportTypes, funcImportPositions] using ih'
      | global _ => simpa [funcImportTypes, funcImportPositions] using ih'

theorem importedCount_f_aux (l : List (String × String × ImportDescM)) (m : ModuleM) (hm : m.imports = l) :
    importedCount m "f" = (funcImportTypes l).length := by
  unfold importedCount funcImportTypes
  rw [hm]
  clear hm
  induction l with
  | nil => rfl
  | cons i r ih =>
    simp only [List.filterMap_cons, List.filter_cons]
    cases hi : i.2.2 <;> simp [ih]

theorem importedCount_f (m : ModuleM) : importedCount m "f" = (funcImportTypes m.imports).length :=
  importedCount_f_aux m.imports m rfl

/-- the types `gcSucc` reads for an imported function are `funcImportTypes` -/
theorem gcSucc_import (g : GcInfo) (j t : Nat) (hj : j < g.nif) (ht : (funcImportTypes g.m.imports)[j]? = some t) :
    gcSucc g ("f", j) = (g.tids[t]?).toList.map (("y", ·)) := by
  have hx : ∀ (l : List (String × String × ImportDescM)),
      (l.filterMap fun i => match i.2.2 with | .func t => some t | _ => none) = funcImportTypes l := by
    intro l
    unfold funcImportTypes
    apply filterMap_ext'
    intro i
    cases i.2.2 <;> rfl
  simp only [gcSucc, hj, if_true]
  have : ∀ (X : List Nat), X = funcImportTypes g.m.imports →
      (match X[j]? with
       | some t => (g.tids[t]?).toList.map (("y", ·))
       | none => []) = (g.tids[t]?).toList.map (("y", ·)) := by
    intro X hX
    rw [hX, ht]
  apply this
  unfold funcImportTypes
  apply filterMap_ext'
  intro i
  cases i.2.2 <;> rfl

theorem mkGcInfo_tids (m : ModuleM) (g : GcInfo) (h : mkGcInfo m = some g) : g.tids = dedupIds m.sigs := by
  unfold mkGcInfo at h
  simp only [Option.map_eq_some_iff] at h
  obtain ⟨pfs, _, rfl⟩ := h
  rfl

theorem assoc_zipIdx_key_some {α : Type} (key : α → Nat) (x : α) : ∀ (l : List α) (start : Nat), x ∈ l →
    (assoc ((l.zipIdx start).map fun p => (key p.1, p.2)) (key x)).isSome = true
  | [], _, h => by cases h
  | a :: r, start, h => by
    simp only [List.zipIdx_cons, List.map_cons, assoc]
    split
    · rfl
    · rename_i hne
      rcases List.mem_cons.1 h with h | h
      · exact absurd (by rw [h]) hne
      · exact assoc_zipIdx_key_some key x r (start + 1) h

/-- the type map `gcRoundTrip` builds: kept type ids, sorted by signature, numbered -/
def gcTyMap (g : GcInfo) (m : ModuleM) : List (Nat × Nat) :=
  let dsigs := distinctSigs m.sigs
  let ky := keptOf (usedSet g) "y" dsigs.length
  let idSigs : List (Nat × Sig) := (dsigs.zipIdx.map (fun p => (p.2, p.1))).filter (fun p => ky.contains p.1)
  (sortBy (fun a b => sigLe a.2 b.2) idSigs).zipIdx.map (fun p => (p.1.1, p.2))

/-- a used type id has an index in the type map -/
theorem gcTyMap_total (g : GcInfo) (m : ModuleM) (tid : Nat) (hr : tid < (distinctSigs m.sigs).length)
    (hu : ("y", tid) ∈ usedSet g) : (assoc (gcTyMap g m) tid).isSome = true := by
  unfold gcTyMap
  simp only
  have hmem : (tid, (distinctSigs m.sigs)[tid]) ∈
      sortBy (fun a b => sigLe a.2 b.2) (((distinctSigs m.sigs).zipIdx.map (fun p => (p.2, p.1))).filter
        (fun p => (keptOf (usedSet g) "y" (distinctSigs m.sigs).length).contains p.1)) := by
    rw [mem_sortBy, List.mem_filter]
    refine ⟨?_, by simpa using (mem_keptOf _ _ _ _).2 ⟨hr, hu⟩⟩
    rw [List.mem_map]
    refine ⟨((distinctSigs m.sigs)[tid], tid), ?_, rfl⟩
    rw [List.mem_iff_getElem?]
    exact ⟨tid, by simp [hr]⟩
  exact assoc_zipIdx_key_some (fun q : Nat × Sig => q.1) _ _ 0 hmem

/-- **the kept imports emit**: the type of every kept imported function has a type index -/
theorem gc_imports_emit (m : ModuleM) (g : GcInfo) (hg : mkGcInfo m = some g) (hw : gcWF g = true)
    (kt km kg : List Nat)
    (hty : ∀ i ∈ m.imports, ∀ t, i.2.2 = .func t → t < m.sigs.length) :
    (gcImportsOut m (keptOf (usedSet g) "f" (g.nif + m.funcs.length)) kt km kg
      (fun t => (g.tids[t]?).bind (assoc (gcTyMap g m)))).isSome = true := by
  unfold gcImportsOut
  simp only
  have hd := gcWF_finishes g hw
  obtain ⟨_, hm, hnif⟩ := mkGcInfo_spec m g hg
  have htids := mkGcInfo_tids m g hg
  rw [C02.mapM_isSome_iff]
  intro x hx
  simp only [List.mem_filterMap] at hx
  obtain ⟨p, hp, hpx⟩ := hx
  simp only [id]
  cases hi : p.1.2.2 with
  | func t =>
    simp only [hi] at hpx
    split at hpx
    · rename_i hkept
      injection hpx with hpx
      subst hpx
      rw [Option.isSome_map]
      -- the import is the j-th function import and its type is t
      have htype := funcImport_type m.imports 0 p t hp hi
      rw [← importPositions_f] at htype
      have hj := (mem_keptOf _ _ _ _).1 (by simpa using hkept :
        (importPositions m "f").idxOf p.2 ∈ keptOf (usedSet g) "f" (g.nif + m.funcs.length))
      have hpm : p.1 ∈ m.imports := by
        have := List.mem_zipIdx hp
        rw [this.2.2]; exact List.getElem_mem _
      have htlt : t < m.sigs.length := hty p.1 hpm t hi
      obtain ⟨tid, htid, hds⟩ := C19.type_index_denotes_its_signature m.sigs t m.sigs[t] (by simp [htlt])
      have htidlt : tid < (distinctSigs m.sigs).length := (List.getElem?_eq_some_iff.1 hds).1
      -- the type id is a successor of the imported function
      have hjlt : (importPositions m "f").idxOf p.2 < g.nif := by
        have := (List.getElem?_eq_some_iff.1 htype).1
        rw [hnif, importedCount_f]
        exact this
      have hsucc : ("y", tid) ∈ gcSucc g ("f", (importPositions m "f").idxOf p.2) := by
        rw [gcSucc_import g _ t hjlt (by rw [hm]; exact htype), htids, htid]
        simp
      have hcl := (mem_usedSet_closure g _ hj.2).resolve_right (by simp)
      have hu := usedSet_closed g hd _ _ hcl hsucc
      have := gcTyMap_total g m tid htidlt hu
      rw [htids, htid]
      simpa using this
    · cases hpx
  | table _ =>
    simp only [hi] at hpx
    split at hpx
    · injection hpx with hpx; subst hpx; rfl
    · cases hpx
  | mem _ =>
    simp only [hi] at hpx
    split at hpx
    · injection hpx with hpx; subst hpx; rfl
    · cases hpx
  | global _ =>
    simp only [hi] at hpx
    split at hpx
    · injection hpx with hpx; subst hpx; rfl
    · cases hpx

/-- what validation guarantees about the shape of a module's references, beyond their being in
    range (`gcWF`) -/
structure SectionsWF (m : ModuleM) : Prop where
  exportKinds : ∀ e ∈ m.exports, e.2.1 ≠ "y"
  globalInits : ∀ gl ∈ m.globals, cexprWF gl.2
  dataOffsets : ∀ d ∈ m.datas, ∀ mem off, d.mode = .active mem off → offsetWF off
  elemOffsets : ∀ e ∈ m.elems, ∀ t off, e.mode = .active t off → offsetWF off
  elemItems : ∀ e ∈ m.elems, ∀ ty es, e.items = .exprs ty es → ∀ c ∈ es, cexprWF c
  importTypes : ∀ i ∈ m.imports, ∀ t, i.2.2 = .func t → t < m.sigs.length

theorem codeOf_eq (m : ModuleM) (g : GcInfo) (hg : mkGcInfo m = some g) :
    (⟨m.sigs, g.nif, m.code.zip m.funcs |>.map fun p => ⟨p.2, p.1.1, p.1.2⟩⟩ : InCode) = codeOf m := by
  rw [(mkGcInfo_spec m g hg).2.2]; rfl

/-- **after the GC pass nothing outside the code section is left without an emitted index**: for
    every module whose references are in range and well-shaped, if the code section emits then the
    whole module emits — imports, globals, exports, start, element and data segments all find the
    indices of everything they name (in the real code: no `get_*_index` panic) -/
theorem gc_sections_emit (m : ModuleM) (g : GcInfo) (hg : mkGcInfo m = some g)
    (hlen : m.code.length = m.funcs.length) (hw : gcWF g = true) (hs : SectionsWF m) (oc : OutCode)
    (hoc : emitCodeWith (codeOf m) g.pfs
      ⟨keptOf (usedSet g) "f" (g.nif + m.funcs.length), keptOf (usedSet g) "y" (distinctSigs m.sigs).length,
       { tables := compact (keptOf (usedSet g) "t" (g.nit + m.tables.length)),
         mems := compact (keptOf (usedSet g) "m" (g.nim + m.mems.length)),
         globals := compact (keptOf (usedSet g) "g" (g.nig + m.globals.length)),
         elems := compact (keptOf (usedSet g) "e" m.elems.length),
         datas := compact (keptOf (usedSet g) "d" m.datas.length) }⟩ = some oc) :
    (gcRoundTrip m).isSome = true := by
  obtain ⟨im, him⟩ := Option.isSome_iff_exists.1 (gc_imports_emit m g hg hw
    (keptOf (usedSet g) "t" (g.nit + m.tables.length)) (keptOf (usedSet g) "m" (g.nim + m.mems.length))
    (keptOf (usedSet g) "g" (g.nig + m.globals.length)) hs.importTypes)
  obtain ⟨gl, hgl⟩ := Option.isSome_iff_exists.1 (gc_globals_emit m g hg hlen hw _ _ oc hoc (gcTyMap g m) hs.globalInits)
  have hes := gc_exports_and_start_emit m g hg hlen hw _ _ oc hoc (gcTyMap g m) hs.exportKinds
  obtain ⟨ex, hex⟩ := Option.isSome_iff_exists.1 hes.1
  obtain ⟨st, hst⟩ := Option.isSome_iff_exists.1 hes.2
  obtain ⟨el, hel⟩ := Option.isSome_iff_exists.1 (gc_elems_emit m g hg hlen hw _ _ oc hoc (gcTyMap g m) hs.elemOffsets hs.elemItems)
  obtain ⟨da, hda⟩ := Option.isSome_iff_exists.1 (gc_datas_emit m g hg hlen hw _ _ oc hoc (gcTyMap g m) hs.dataOffsets)
  simp only [gcMaps, gcFuncMap, gcTyMap] at him hgl hex hst hel hda
  unfold gcRoundTrip
  simp only [hlen, ne_eq, not_true_eq_false, if_false, hg, codeOf_eq m g hg, hoc, him, hgl, hex, hst, hel, hda]
  rfl

end Walrus
