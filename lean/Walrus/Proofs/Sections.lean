import Walrus.Sections

namespace Walrus

def rawIn (input : List InC) : List (String × String) :=
  (input.filter (fun c => classify c.name = .raw)).map (fun c => (c.name, c.data))

def rawOut (out : List OutC) : List (String × String) :=
  out.filterMap (fun o => match o with | .raw n d => some (n, d) | _ => none)

theorem classify_raw_not_debug {n : String} (h : classify n = .raw) : isDebugName n = false := by
  unfold classify at h
  split at h
  · cases h
  · split at h
    · cases h
    · split at h
      · cases h
      · rename_i h3; simpa using h3

/-- what the fold over the input's custom sections computes, field by field -/
theorem foldl_parseCustom_customs (input : List InC) (m : SMod) :
    (input.foldl parseCustom m).customs = m.customs ++ rawIn input := by
  induction input generalizing m with
  | nil => simp [rawIn]
  | cons c cs ih =>
    simp only [List.foldl_cons, ih]
    unfold parseCustom rawIn
    cases hc : classify c.name <;> simp [hc]
    · cases c.modname <;> simp

theorem foldl_parseCustom_cfg (input : List InC) (m : SMod) :
    (input.foldl parseCustom m).cfg = m.cfg ∧ (input.foldl parseCustom m).onParseCalls = m.onParseCalls := by
  induction input generalizing m with
  | nil => simp
  | cons c cs ih =>
    simp only [List.foldl_cons]
    have := ih (parseCustom m c)
    rw [this.1, this.2]
    unfold parseCustom
    cases classify c.name <;> simp
    · cases c.modname <;> simp

theorem foldl_parseCustom_dwarf (input : List InC) (m : SMod) :
    (input.foldl parseCustom m).hasDwarf =
      (m.hasDwarf || input.any (fun c => decide (classify c.name = .debug) && c.nonEmptyDwarf)) := by
  induction input generalizing m with
  | nil => simp
  | cons c cs ih =>
    simp only [List.foldl_cons, ih, List.any_cons]
    unfold parseCustom
    cases hc : classify c.name <;> simp [hc, Bool.or_assoc]
    · cases c.modname <;> simp

theorem foldl_parseCustom_producers (input : List InC) (m : SMod) :
    (input.foldl parseCustom m).producers =
      m.producers ++ (input.filter (fun c => classify c.name = .producers)).flatMap (fun c => c.prod) := by
  induction input generalizing m with
  | nil => simp
  | cons c cs ih =>
    simp only [List.foldl_cons, ih]
    unfold parseCustom
    cases hc : classify c.name <;> simp [hc]
    · cases c.modname <;> simp

theorem rawOut_semit (m : SMod) :
    rawOut (semit m).1 = m.customs.filter (fun c => !isDebugName c.1) := by
  unfold semit rawOut
  simp only [List.filterMap_append]
  have h1 : ∀ (b : Bool) (x : OutC), (∀ n d, x ≠ .raw n d) →
      List.filterMap (fun o => match o with | OutC.raw n d => some (n, d) | _ => none) (if b then [x] else []) = [] := by
    intro b x hx
    cases b
    · simp
    · cases x <;> simp_all
  rw [h1 _ _ (by intros; simp), h1 _ _ (by intros; simp), h1 _ _ (by intros; simp)]
  simp only [List.filterMap_map, List.nil_append]
  have : ((fun o => match o with | OutC.raw n d => some (n, d) | _ => none) ∘ fun c : String × String => OutC.raw c.1 c.2)
      = fun c => some c := by funext c; rfl
  rw [this]; simp

/-! ### producers -/

theorem replaceOrPush_idem (vs : List (String × String)) (n v : String) :
    replaceOrPush (replaceOrPush vs n v) n v = replaceOrPush vs n v := by
  induction vs with
  | nil => simp [replaceOrPush]
  | cons x xs ih =>
    obtain ⟨a, b⟩ := x
    unfold replaceOrPush
    by_cases h : a = n
    · simp [h, replaceOrPush]
    · simp only [h, if_false]
      rw [replaceOrPush]
      simp [h, ih]

theorem producersField_idem (fs : List PField) (f n v : String) :
    producersField (producersField fs f n v) f n v = producersField fs f n v := by
  induction fs with
  | nil => simp [producersField, replaceOrPush]
  | cons x xs ih =>
    unfold producersField
    by_cases h : x.name = f
    · simp [h, producersField, replaceOrPush_idem]
    · simp only [h, if_false]
      rw [producersField]
      simp [h, ih]

/-- fields with another name are untouched, in place -/
theorem producersField_others (fs : List PField) (f n v : String) :
    (producersField fs f n v).filter (fun x => x.name ≠ f) = fs.filter (fun x => x.name ≠ f) := by
  induction fs with
  | nil => simp [producersField]
  | cons x xs ih =>
    unfold producersField
    by_cases h : x.name = f
    · simp [h]
    · simp only [h, if_false, List.filter_cons, ne_eq, not_false_eq_true, decide_true, if_true, ih]

/-- number of values called `n` inside fields called `f` -/
def countEntry (fs : List PField) (f n : String) : Nat :=
  ((fs.filter (fun x => x.name = f)).flatMap (fun x => x.values.filter (fun p => p.1 = n))).length

def PWF (fs : List PField) : Prop :=
  (fs.map (·.name)).Nodup ∧ ∀ x ∈ fs, (x.values.map (·.1)).Nodup

theorem count_replaceOrPush (vs : List (String × String)) (n v : String) (h : (vs.map (·.1)).Nodup) :
    ((replaceOrPush vs n v).filter (fun p => p.1 = n)).length = 1 ∧ ((replaceOrPush vs n v).map (·.1)).Nodup := by
  induction vs with
  | nil => simp [replaceOrPush]
  | cons x xs ih =>
    obtain ⟨a, b⟩ := x
    simp only [List.map_cons, List.nodup_cons] at h
    unfold replaceOrPush
    by_cases hn : a = n
    · subst hn
      have hnot : ∀ p ∈ xs, ¬ p.1 = a := by
        intro p hp e
        exact h.1 (by rw [← e]; exact List.mem_map_of_mem hp)
      have : xs.filter (fun p => decide (p.1 = a)) = [] := by
        apply List.filter_eq_nil_iff.2
        intro p hp; simpa using hnot p hp
      simp [this, h.1, h.2]
    · have ih' := ih h.2
      simp only [hn, if_false, List.filter_cons, decide_false, Bool.false_eq_true, ih'.1, List.map_cons,
        List.nodup_cons, ih'.2, and_true, true_and]
      intro hmem
      -- names of replaceOrPush ⊆ names xs ∪ {n}
      have hsub : ∀ (l : List (String × String)) (z : String), z ∈ (replaceOrPush l n v).map (·.1) → z = n ∨ z ∈ l.map (·.1) := by
        intro l
        induction l with
        | nil => intro z hz; simp [replaceOrPush] at hz; exact Or.inl hz
        | cons y ys ihy =>
          obtain ⟨c, d⟩ := y
          intro z hz
          unfold replaceOrPush at hz
          by_cases hc : c = n
          · simp only [hc, if_true, List.map_cons, List.mem_cons] at hz
            rcases hz with hz | hz
            · exact Or.inl hz
            · exact Or.inr (by simp [hz])
          · simp only [hc, if_false, List.map_cons, List.mem_cons] at hz
            rcases hz with hz | hz
            · exact Or.inr (by simp [hz])
            · rcases ihy z hz with e | e
              · exact Or.inl e
              · exact Or.inr (by simp [e])
      rcases hsub xs a hmem with e | e
      · exact hn e
      · exact h.1 e

theorem count_producersField (fs : List PField) (f n v : String) (h : PWF fs) :
    countEntry (producersField fs f n v) f n = 1 ∧ PWF (producersField fs f n v) := by
  induction fs with
  | nil => simp [producersField, countEntry, PWF]
  | cons x xs ih =>
    obtain ⟨h1, h2⟩ := h
    simp only [List.map_cons, List.nodup_cons] at h1
    have hxs : PWF xs := ⟨h1.2, fun y hy => h2 y (List.mem_cons_of_mem _ hy)⟩
    unfold producersField
    by_cases hx : x.name = f
    · have hnone : xs.filter (fun y => decide (y.name = f)) = [] := by
        apply List.filter_eq_nil_iff.2
        intro y hy
        simp only [decide_eq_true_eq]
        intro e
        exact h1.1 (by rw [hx, ← e]; exact List.mem_map_of_mem hy)
      have hc := count_replaceOrPush x.values n v (h2 x List.mem_cons_self)
      refine ⟨?_, ?_, ?_⟩
      · simp [hx, countEntry, hnone, hc.1]
      · simp [hx, h1.2]; simpa [hx] using h1.1
      · intro y hy
        simp only [hx, if_true, List.mem_cons] at hy
        rcases hy with hy | hy
        · subst hy; exact hc.2
        · exact h2 y (List.mem_cons_of_mem _ hy)
    · have ih' := ih hxs
      refine ⟨?_, ?_, ?_⟩
      · simp only [hx, if_false, countEntry, List.filter_cons, decide_false, Bool.false_eq_true]
        exact ih'.1
      · simp only [hx, if_false, List.map_cons, List.nodup_cons, ih'.2.1, and_true]
        intro hmem
        have hsub : ∀ (l : List PField) (z : String), z ∈ (producersField l f n v).map (·.name) → z = f ∨ z ∈ l.map (·.name) := by
          intro l
          induction l with
          | nil => intro z hz; simp [producersField] at hz; exact Or.inl hz
          | cons y ys ihy =>
            intro z hz
            unfold producersField at hz
            by_cases hc : y.name = f
            · simp only [hc, if_true, List.map_cons, List.mem_cons] at hz
              rcases hz with hz | hz
              · exact Or.inl hz
              · exact Or.inr (by simp [hz])
            · simp only [hc, if_false, List.map_cons, List.mem_cons] at hz
              rcases hz with hz | hz
              · exact Or.inr (by simp [hz])
              · rcases ihy z hz with e | e
                · exact Or.inl e
                · exact Or.inr (by simp [e])
        rcases hsub xs x.name hmem with e | e
        · exact hx e
        · exact h1.1 e
      · intro y hy
        simp only [hx, if_false, List.mem_cons] at hy
        rcases hy with hy | hy
        · subst hy; exact h2 _ List.mem_cons_self
        · exact ih'.2.2 y hy

end Walrus

namespace Walrus

/-! ### explicit form of the parse result (used by the fixpoint theorem) -/

def prodIn (input : List InC) : List PField :=
  (input.filter (fun c => classify c.name = .producers)).flatMap (fun c => c.prod)

def dwarfIn (input : List InC) : Bool :=
  input.any (fun c => decide (classify c.name = .debug) && c.nonEmptyDwarf)

def nameStep (acc : Option String) (c : InC) : Option String :=
  if classify c.name = .name then (match c.modname with | some n => some n | none => acc) else acc

def nameIn (acc : Option String) (input : List InC) : Option String := input.foldl nameStep acc

theorem foldl_parseCustom_modname (input : List InC) (m : SMod) :
    (input.foldl parseCustom m).modname = nameIn m.modname input := by
  induction input generalizing m with
  | nil => simp [nameIn]
  | cons c cs ih =>
    simp only [List.foldl_cons, ih, nameIn]
    congr 1
    unfold parseCustom nameStep
    cases hc : classify c.name <;> simp
    cases c.modname <;> simp

def parsed (cfg : SCfg) (ver : String) (input : List InC) : SMod :=
  { cfg := cfg, customs := rawIn input,
    producers := producersField (prodIn input) "processed-by" "walrus" ver,
    modname := nameIn none input, hasDwarf := dwarfIn input, onParseCalls := 1 }

theorem sparse_eq (cfg : SCfg) (ver : String) (input : List InC) :
    sparse cfg ver true input = some (parsed cfg ver input) := by
  simp only [sparse, Bool.not_true, Bool.false_eq_true, if_false, Option.some.injEq]
  generalize hm : List.foldl parseCustom ⟨cfg, [], [], none, false, 0⟩ input = m1
  have h1 : m1.cfg = cfg := by rw [← hm]; exact (foldl_parseCustom_cfg input _).1
  have h2 : m1.onParseCalls = 0 := by rw [← hm]; exact (foldl_parseCustom_cfg input _).2
  have h3 : m1.customs = rawIn input := by rw [← hm]; simp [foldl_parseCustom_customs]
  have h4 : m1.producers = prodIn input := by rw [← hm]; simp [foldl_parseCustom_producers, prodIn]
  have h5 : m1.modname = nameIn none input := by rw [← hm]; simp [foldl_parseCustom_modname]
  have h6 : m1.hasDwarf = dwarfIn input := by rw [← hm]; simp [foldl_parseCustom_dwarf, dwarfIn]
  simp [parsed, h1, h2, h3, h4, h5, h6]

theorem producersField_ne_nil (fs : List PField) (f n v : String) : (producersField fs f n v).isEmpty = false := by
  cases fs with
  | nil => simp [producersField]
  | cons x xs => unfold producersField; split <;> simp

def rawToIn (c : String × String) : InC := ⟨c.1, c.2, [], none, false⟩

theorem rawIn_raws (cs : List (String × String)) (h : ∀ c ∈ cs, classify c.1 = .raw) :
    rawIn (cs.map rawToIn) = cs := by
  induction cs with
  | nil => rfl
  | cons c cs ih =>
    have hc := h c List.mem_cons_self
    have ih' := ih (fun x hx => h x (List.mem_cons_of_mem _ hx))
    unfold rawIn at ih' ⊢
    have e : classify (rawToIn c).name = .raw := hc
    simp only [List.map_cons, List.filter_cons, e, decide_true, if_true]
    rw [ih']; rfl

theorem prodIn_raws (cs : List (String × String)) (h : ∀ c ∈ cs, classify c.1 = .raw) :
    prodIn (cs.map rawToIn) = [] := by
  induction cs with
  | nil => rfl
  | cons c cs ih =>
    have hc := h c List.mem_cons_self
    have ih' := ih (fun x hx => h x (List.mem_cons_of_mem _ hx))
    unfold prodIn at ih' ⊢
    have e : classify (rawToIn c).name = .raw := hc
    simp only [List.map_cons, List.filter_cons, e]
    simpa using ih'

theorem nameIn_raws (cs : List (String × String)) (h : ∀ c ∈ cs, classify c.1 = .raw) (acc : Option String) :
    nameIn acc (cs.map rawToIn) = acc := by
  induction cs with
  | nil => rfl
  | cons c cs ih =>
    have hc := h c List.mem_cons_self
    have ih' := ih (fun x hx => h x (List.mem_cons_of_mem _ hx))
    unfold nameIn at ih' ⊢
    simp only [List.map_cons, List.foldl_cons]
    have : nameStep acc (rawToIn c) = acc := by simp [nameStep, rawToIn, hc]
    rw [this]; exact ih'

theorem dwarfIn_raws (cs : List (String × String)) : dwarfIn (cs.map rawToIn) = false := by
  induction cs with
  | nil => rfl
  | cons c cs ih =>
    unfold dwarfIn at ih ⊢
    simp only [List.map_cons, List.any_cons, ih, Bool.or_false]
    simp [rawToIn]

theorem rawIn_append (a b : List InC) : rawIn (a ++ b) = rawIn a ++ rawIn b := by simp [rawIn]
theorem prodIn_append (a b : List InC) : prodIn (a ++ b) = prodIn a ++ prodIn b := by simp [prodIn]
theorem dwarfIn_append (a b : List InC) : dwarfIn (a ++ b) = (dwarfIn a || dwarfIn b) := by simp [dwarfIn]
theorem nameIn_append (acc : Option String) (a b : List InC) : nameIn acc (a ++ b) = nameIn (nameIn acc a) b := by
  simp [nameIn]

end Walrus
