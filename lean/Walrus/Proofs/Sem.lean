import Walrus.Run

/-! Elision of `nop`s and of syntactically unreachable code is unobservable (C01). -/
namespace Walrus.Sem

theorem execOp_nop (T FS : List Sig) (call : CallFn) (o : Op) (s : St) (h : o.name = "Nop") :
    execOp T FS call o s = .ok s := by
  simp [execOp, h]

/-- an unconditional transfer never completes normally -/
theorem execOp_endsSeq (T FS : List Sig) (call : CallFn) (o : Op) (s : St) (h : endsSeq o = true) :
    ∀ s', execOp T FS call o s ≠ .ok s' := by
  intro s'
  simp only [endsSeq, Bool.or_eq_true, decide_eq_true_eq] at h
  rcases h with ((h | h) | h) | h
  · simp [execOp, h]
  · simp only [execOp, h]
    simp
    split <;> simp
  · simp only [execOp, h]
    simp
    split
    · split <;> simp
    · simp
  · simp [execOp, h]


/-- what the two `Rec`s must agree on: calls mean the same, and re-entering the elided loop means
    the same as re-entering the original one -/
structure RecRel (R' R : Rec) : Prop where
  call : R'.call = R.call
  loop : ∀ bt b s, R'.reLoop bt b.elide s = R.reLoop bt b s

mutual
theorem elide_execI (T FS : List Sig) (R' R : Rec) (h : RecRel R' R) :
    (i : SI) → ∀ s, execI T FS R' i.elide s = execI T FS R i s
  | .op o, s => by simp [SI.elide, execI, h.call]
  | .block bt b, s => by
      simp only [SI.elide, execI]
      rw [elide_execL T FS R' R h b s]
  | .loop bt b, s => by
      simp only [SI.elide, execI]
      rw [elide_execL T FS R' R h b s]
      split <;> simp [h.loop]
  | .ite bt t e, s => by
      simp only [SI.elide, execI]
      split
      · rename_i c r hs
        rw [elide_execL T FS R' R h t, elide_execL T FS R' R h e]
      · rfl
theorem elide_execL (T FS : List Sig) (R' R : Rec) (h : RecRel R' R) :
    (l : SL) → ∀ s, execL T FS R' l.elide s = execL T FS R l s
  | .nil, s => by simp [SL.elide, execL]
  | .cons (.op o) t, s => by
      simp only [SL.elide]
      split
      · rename_i hn
        rw [elide_execL T FS R' R h t s]
        simp [execL, execI, execOp_nop T FS R.call o s hn]
      · split
        · rename_i he
          have hne := execOp_endsSeq T FS R.call o s he
          simp only [execL, execI, h.call]
        · simp only [execL, execI, h.call]
          cases hx : execOp T FS R.call o s with
          | ok s' => exact elide_execL T FS R' R h t s'
          | _ => rfl
  | .cons (.block bt b) t, s => by
      simp only [SL.elide, execL]
      rw [elide_execI T FS R' R h (.block bt b) s]
      cases hx : execI T FS R (.block bt b) s with
      | ok s' => exact elide_execL T FS R' R h t s'
      | _ => rfl
  | .cons (.loop bt b) t, s => by
      simp only [SL.elide, execL]
      rw [elide_execI T FS R' R h (.loop bt b) s]
      cases hx : execI T FS R (.loop bt b) s with
      | ok s' => exact elide_execL T FS R' R h t s'
      | _ => rfl
  | .cons (.ite bt a e) t, s => by
      simp only [SL.elide, execL]
      rw [elide_execI T FS R' R h (.ite bt a e) s]
      cases hx : execI T FS R (.ite bt a e) s with
      | ok s' => exact elide_execL T FS R' R h t s'
      | _ => rfl
end


/-- the module with every body elided -/
def Env.elide (E : Env) : Env := { E with funcs := E.funcs.map fun fi => { fi with body := fi.body.elide } }

theorem Env.elide_fsigs (E : Env) : E.elide.fsigs = E.fsigs := by
  simp [Env.elide, Env.fsigs, List.map_map, Function.comp_def]

theorem callFn_elide (E : Env) (R' R : Rec) (h : RecRel R' R) (f : Nat) (args : List V) (st : Store) :
    callFn E.elide R' f args st = callFn E R f args st := by
  unfold callFn
  have hf : E.elide.funcs[f]? = (E.funcs[f]?).map fun fi => { fi with body := fi.body.elide } := by
    simp [Env.elide]
  rw [hf]
  cases hfi : E.funcs[f]? with
  | none => rfl
  | some fi =>
    simp only [Option.map_some]
    cases hi : fi.imp with
    | some p => simp [hi]
    | none =>
      simp only [hi, Env.elide_fsigs]
      have : E.elide.types = E.types := rfl
      rw [this, elide_execL E.types E.fsigs R' R h fi.body]

theorem mkRec_elide (E : Env) : ∀ n, RecRel (mkRec E.elide n) (mkRec E n)
  | 0 => ⟨rfl, fun _ _ _ => rfl⟩
  | n+1 => by
    have ih := mkRec_elide E n
    constructor
    · funext f args st
      exact callFn_elide E _ _ ih f args st
    · intro bt b s
      simp only [mkRec, Env.elide_fsigs]
      have : E.elide.types = E.types := rfl
      rw [this]
      split
      · rfl
      · exact elide_execI E.types E.fsigs _ _ ih (.loop bt b) _

/-- **calls into the elided module mean what they meant before**, for every gas budget -/
theorem invoke_elide (E : Env) (gas : Nat) : invoke E.elide gas = invoke E gas := by
  unfold invoke
  rw [(mkRec_elide E (gas + 1)).call]

/-- **the whole observation is unchanged**: instantiation outcome, every result and trap of every
    call of the script, the host-call trace and the exported state -/
theorem observe_elide (m : ModuleM) (E : Env) (gas seed rounds : Nat) :
    observeWith m E.elide.fsigs (invoke E.elide gas) seed rounds =
    observeWith m E.fsigs (invoke E gas) seed rounds := by
  rw [invoke_elide, Env.elide_fsigs]

end Walrus.Sem
