import Walrus.Run

/-! Elision of `nop`s and of syntactically unreachable code is unobservable (C01). -/
namespace Walrus.Sem

theorem execOp_nop (C : Ctx) (call : CallFn) (o : Op) (s : St) (h : o.name = "Nop") :
    execOp C call o s = .ok s := by
  simp [execOp, isSpecial, execPlain, h]

/-- an unconditional transfer never completes normally -/
theorem execOp_endsSeq (C : Ctx) (call : CallFn) (o : Op) (s : St) (h : endsSeq o = true) :
    ∀ s', execOp C call o s ≠ .ok s' := by
  intro s'
  simp only [endsSeq, Bool.or_eq_true, decide_eq_true_eq] at h
  rcases h with ((h | h) | h) | h
  · simp [execOp, isSpecial, execPlain, h]
  · simp only [execOp, isSpecial, execPlain, h]
    simp
    split <;> simp
  · simp only [execOp, isSpecial, execPlain, h]
    simp
    split
    · split <;> simp
    · simp
  · simp [execOp, isSpecial, execPlain, h]

/-- what the two `Rec`s must agree on: calls mean the same, and re-entering the elided loop means
    the same as re-entering the original one -/
structure RecRel (R' R : Rec) : Prop where
  call : R'.call = R.call
  loop : ∀ lt bt b s, R'.reLoop lt bt b.elide s = R.reLoop lt bt b s

mutual
theorem elide_execI (C : Ctx) (R' R : Rec) (h : RecRel R' R) :
    (i : SI) → ∀ s, execI C R' i.elide s = execI C R i s
  | .op o, s => by simp [SI.elide, execI, h.call]
  | .block bt b, s => by
      simp only [SI.elide, execI]
      rw [elide_execL C R' R h b s]
  | .loop bt b, s => by
      simp only [SI.elide, execI]
      rw [elide_execL C R' R h b s]
      split <;> simp [h.loop]
  | .ite bt t e, s => by
      simp only [SI.elide, execI]
      split
      · rename_i c r hs
        rw [elide_execL C R' R h t, elide_execL C R' R h e]
      · rfl
theorem elide_execL (C : Ctx) (R' R : Rec) (h : RecRel R' R) :
    (l : SL) → ∀ s, execL C R' l.elide s = execL C R l s
  | .nil, s => by simp [SL.elide, execL]
  | .cons (.op o) t, s => by
      simp only [SL.elide]
      split
      · rename_i hn
        rw [elide_execL C R' R h t s]
        simp [execL, execI, execOp_nop C R.call o s hn]
      · split
        · rename_i he
          have hne := execOp_endsSeq C R.call o s he
          simp only [execL, execI, h.call]
        · simp only [execL, execI, h.call]
          cases hx : execOp C R.call o s with
          | ok s' => exact elide_execL C R' R h t s'
          | _ => rfl
  | .cons (.block bt b) t, s => by
      simp only [SL.elide, execL]
      rw [elide_execI C R' R h (.block bt b) s]
      cases hx : execI C R (.block bt b) s with
      | ok s' => exact elide_execL C R' R h t s'
      | _ => rfl
  | .cons (.loop bt b) t, s => by
      simp only [SL.elide, execL]
      rw [elide_execI C R' R h (.loop bt b) s]
      cases hx : execI C R (.loop bt b) s with
      | ok s' => exact elide_execL C R' R h t s'
      | _ => rfl
  | .cons (.ite bt a e) t, s => by
      simp only [SL.elide, execL]
      rw [elide_execI C R' R h (.ite bt a e) s]
      cases hx : execI C R (.ite bt a e) s with
      | ok s' => exact elide_execL C R' R h t s'
      | _ => rfl
end


theorem Env.elide_usigs (E : Env) : E.elide.usigs = E.usigs := by
  simp [Env.elide, Env.usigs, List.map_map, Function.comp_def]

theorem Env.elide_ctx (E : Env) (lt : List (Nat × String)) : E.elide.ctx lt = E.ctx lt := by
  simp [Env.ctx, Env.elide_usigs]; exact ⟨rfl, rfl⟩

theorem callFn_elide (E : Env) (R' R : Rec) (h : RecRel R' R) (u : Nat) (args : List V) (st : Store) :
    callFn E.elide R' u args st = callFn E R u args st := by
  unfold callFn
  have hf : E.elide.ufuncs[u]? = (E.ufuncs[u]?).map fun fi => { fi with body := fi.body.elide } := by
    simp [Env.elide]
  rw [hf]
  split
  · rfl
  · cases hfi : E.ufuncs[u]? with
    | none => rfl
    | some fi =>
      simp only [Option.map_some]
      cases hi : fi.imp with
      | some p => simp
      | none =>
        simp only [Env.elide_ctx]
        rw [elide_execL (E.ctx fi.lt) R' R h fi.body]

theorem mkRec_elide (E : Env) : ∀ n, RecRel (mkRec E.elide n) (mkRec E n)
  | 0 => ⟨rfl, fun _ _ _ _ => rfl⟩
  | n+1 => by
    have ih := mkRec_elide E n
    constructor
    · funext f args st
      exact callFn_elide E _ _ ih f args st
    · intro lt bt b s
      simp only [mkRec, Env.elide_ctx]
      split
      · rfl
      · exact elide_execI (E.ctx lt) _ _ ih (.loop bt b) _

/-- **calls into the elided module mean what they meant before**, for every gas budget -/
theorem invoke_elide (E : Env) (gas : Nat) : invoke E.elide gas = invoke E gas := by
  unfold invoke
  rw [(mkRec_elide E (gas + 1)).call]

/-- **the whole observation is unchanged**: instantiation outcome, every result and trap of every
    call of the script, the host-call trace and the exported state -/
theorem observe_elide (m : ModuleM) (E : Env) (gas seed rounds : Nat) :
    observeWith m E.elide.resolve E.elide.usigs (invoke E.elide gas) seed rounds =
    observeWith m E.resolve E.usigs (invoke E gas) seed rounds := by
  rw [invoke_elide, Env.elide_usigs]; rfl

end Walrus.Sem
