import Walrus.BodiesOK
import Walrus.Proofs.GcCodeEmit

/-! `bodiesOK` (decidable, evaluated by the driver on every case) implies `BodiesWF`. -/
namespace Walrus

theorem opCleanB_sound (o : Op) (h : opCleanB o = true) : opClean o := by
  simp only [opCleanB, Bool.and_eq_true, Bool.or_eq_true, Bool.not_eq_true', decide_eq_true_eq,
    List.isEmpty_iff, List.all_eq_true] at h
  obtain ⟨⟨h1, h2⟩, h3⟩ := h
  refine ⟨?_, ?_, ?_⟩
  · intro hn
    rcases h1 with h1 | h1
    · simp only [Bool.or_eq_false_iff, decide_eq_false_iff_not] at h1
      rcases hn with hn | hn
      · exact absurd hn h1.1
      · exact absurd hn h1.2
    · exact h1
  · intro n hm
    rcases h2 with h2 | h2
    · have := h2 _ hm
      simp at this
    · rcases h2 with (h2 | h2) | h2
      · exact Or.inl h2
      · exact Or.inr (Or.inl h2)
      · exact Or.inr (Or.inr h2)
  · intro sp n hm
    have := h3 _ hm
    simpa using this

mutual
theorem wfB_I : (i : PI) → i.wfB = true → i.WF
  | .op o _, h => by simpa [PI.wfB, PI.WF] using h
  | .blk o _ b _, h => by
      simp only [PI.wfB, Bool.and_eq_true, Bool.or_eq_true, decide_eq_true_eq] at h
      exact ⟨h.1, wfB_L b h.2⟩
  | .if1 o _ t _, h => by
      simp only [PI.wfB, Bool.and_eq_true, decide_eq_true_eq] at h
      exact ⟨h.1, wfB_L t h.2⟩
  | .if2 o _ t _ e _, h => by
      simp only [PI.wfB, Bool.and_eq_true, decide_eq_true_eq] at h
      exact ⟨h.1.1, wfB_L t h.1.2, wfB_L e h.2⟩
theorem wfB_L : (l : PL) → l.wfB = true → l.WF
  | .nil, _ => trivial
  | .cons hd tl, h => by
      simp only [PL.wfB, Bool.and_eq_true] at h
      exact ⟨wfB_I hd h.1, wfB_L tl h.2⟩
end

mutual
theorem cleanB_I : (i : PI) → i.cleanB = true → i.Clean
  | .op o _, h => opCleanB_sound o (by simpa [PI.cleanB] using h)
  | .blk o _ b _, h => cleanB_L b (by simpa [PI.cleanB] using h)
  | .if1 o _ t _, h => cleanB_L t (by simpa [PI.cleanB] using h)
  | .if2 o _ t _ e _, h => by
      simp only [PI.cleanB, Bool.and_eq_true] at h
      exact ⟨cleanB_L t h.1, cleanB_L e h.2⟩
theorem cleanB_L : (l : PL) → l.cleanB = true → l.Clean
  | .nil, _ => trivial
  | .cons hd tl, h => by
      simp only [PL.cleanB, Bool.and_eq_true] at h
      exact ⟨cleanB_I hd h.1, cleanB_L tl h.2⟩
end

/-- **the decidable check implies the hypothesis of the totality theorems** -/
theorem bodiesOK_sound (m : ModuleM) (g : GcInfo) (hg : mkGcInfo m = some g) (h : bodiesOK m g = true) :
    BodiesWF m g := by
  obtain ⟨_, _, hnif⟩ := mkGcInfo_spec m g hg
  intro k f pf hf hpf
  have hk : k < g.pfs.length := (List.getElem?_eq_some_iff.1 hpf).1
  simp only [bodiesOK, List.all_eq_true, List.mem_range] at h
  have hk' := h k hk
  -- the k-th function of the code slice carries the k-th body
  simp only [codeOf, List.getElem?_map, Option.map_eq_some_iff] at hf
  obtain ⟨p, hp, rfl⟩ := hf
  obtain ⟨⟨locals, ops⟩, fi⟩ := p
  obtain ⟨hc, _⟩ := List.getElem?_zip_eq_some.1 hp
  rw [hc, hpf] at hk'
  simp only [bodyOK] at hk'
  cases hu : unflat ops with
  | none => simp [hu] at hk'
  | some r =>
    obtain ⟨body, endLoc⟩ := r
    simp only [hu, Bool.and_eq_true, decide_eq_true_eq] at hk'
    obtain ⟨⟨⟨hflat, hwf⟩, hcl⟩, hexp⟩ := hk'
    have henv : envOf (codeOf m) pf =
        { funcs := List.range (g.nif + (m.code.zip m.funcs).length), types := dedupIds m.sigs,
          locals := pf.localTys.map (·.1), sigs := m.sigs } := by
      simp [envOf, codeOf, hnif]
    rw [← henv] at hexp
    obtain ⟨r, hr⟩ := Option.isSome_iff_exists.1 hexp
    obtain ⟨is, cs, u⟩ := r
    exact ⟨body, endLoc, is, cs, u, wfB_L body hwf, cleanB_L body hcl, hflat, hr⟩

theorem cexprOK_sound (c : CExprM) (h : cexprOK c = true) : cexprWF c := by
  intro op hop sp id hr
  simp only [cexprOK, List.all_eq_true] at h
  have := h op hop _ hr
  simpa using this

theorem offsetOK_sound (c : CExprM) (h : offsetOK c = true) : offsetWF c := by
  intro op hop sp id hr
  simp only [offsetOK, List.all_eq_true] at h
  have := h op hop _ hr
  simpa using this

/-- **the decidable check of the non-code sections implies `SectionsWF`** -/
theorem sectionsOK_sound (m : ModuleM) (h : sectionsOK m = true) : SectionsWF m := by
  simp only [sectionsOK, Bool.and_eq_true, List.all_eq_true] at h
  obtain ⟨⟨⟨⟨⟨h1, h2⟩, h3⟩, h4⟩, h5⟩, h6⟩ := h
  refine ⟨?_, ?_, ?_, ?_, ?_, ?_⟩
  · intro e he; simpa using h1 e he
  · intro gl hgl; exact cexprOK_sound _ (h2 gl hgl)
  · intro d hd mem off hm
    have := h3 d hd
    rw [hm] at this
    exact offsetOK_sound _ this
  · intro e he t off hm
    have := h4 e he
    rw [hm] at this
    exact offsetOK_sound _ this
  · intro e he ty es hi c hc
    have := h5 e he
    rw [hi] at this
    simp only [List.all_eq_true] at this
    exact cexprOK_sound _ (this c hc)
  · intro i hi t ht
    have := h6 i hi
    rw [ht] at this
    simpa using this

end Walrus
