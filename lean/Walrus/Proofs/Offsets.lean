import Walrus.Offsets

/-! Soundness of the code-offset bookkeeping against the byte layout of the code section (C11). -/
namespace Walrus

theorem flatten_take_drop (l : List (List UInt8)) (k : Nat) :
    l.flatten = (l.take k).flatten ++ (l.drop k).flatten := by
  rw [← List.flatten_append, List.take_append_drop]

theorem drop_flatten_take (l : List (List UInt8)) (k : Nat) :
    l.flatten.drop (l.take k).flatten.length = (l.drop k).flatten := by
  conv => lhs; rw [flatten_take_drop l k]
  simp

/-- where operator `k` of function `f` begins inside its code-section entry -/
theorem entry_drop_op (f : EmittedFunc) (k : Nat) (hk : k < f.ops.length) :
    ∃ rest, f.entry.drop (lebLen f.byteLen + f.posOf k) = f.ops[k] ++ rest := by
  unfold EmittedFunc.entry EmittedFunc.body EmittedFunc.posOf
  refine ⟨(f.ops.drop (k+1)).flatten, ?_⟩
  rw [← lebBytes_length, List.drop_length_add_append, List.drop_length_add_append, drop_flatten_take]
  have : f.ops.drop k = f.ops[k] :: f.ops.drop (k+1) := by
    rw [List.drop_eq_getElem_cons hk]
  simp only [this, List.flatten_cons]

/-- an entry of the location map is *good* for a byte string when it is the location of some
    operator of some emitted function and that operator's encoding starts at the reported offset -/
def GoodPair (fs : List EmittedFunc) (all : List UInt8) (p : Nat × Nat) : Prop :=
  ∃ f ∈ fs, ∃ k, ∃ (hk : k < f.ops.length), (p.1, k) ∈ f.marks ∧ p.1 ≠ defaultLoc ∧
    ∃ rest, all.drop p.2 = f.ops[k] ++ rest

theorem btInsert_mem {k v : Nat} {m : List (Nat × Nat)} {p : Nat × Nat} (h : p ∈ btInsert k v m) :
    p = (k, v) ∨ p ∈ m := by
  induction m with
  | nil => simp [btInsert] at h; exact Or.inl h
  | cons x xs ih =>
    obtain ⟨a, b⟩ := x
    unfold btInsert at h
    split at h
    · rcases List.mem_cons.1 h with h | h
      · exact Or.inl h
      · exact Or.inr h
    · split at h
      · rcases List.mem_cons.1 h with h | h
        · exact Or.inl h
        · exact Or.inr (List.mem_cons_of_mem _ h)
      · rcases List.mem_cons.1 h with h | h
        · exact Or.inr (h ▸ List.mem_cons_self)
        · rcases ih h with h | h
          · exact Or.inl h
          · exact Or.inr (List.mem_cons_of_mem _ h)

theorem collectOffsets_sound (fs : List EmittedFunc) (all : List UInt8) (f : EmittedFunc) (hf : f ∈ fs)
    (hm : ∀ p ∈ f.marks, p.2 < f.ops.length)
    (before rest : List UInt8) (hall : all = before ++ f.entry ++ rest)
    (acc : List (Nat × Nat)) (hacc : ∀ p ∈ acc, GoodPair fs all p) :
    ∀ p ∈ collectOffsets acc (before.length + lebLen f.byteLen) f, GoodPair fs all p := by
  unfold collectOffsets
  -- generalise over the marks processed so far
  have key : ∀ (ms : List (Nat × Nat)) (acc : List (Nat × Nat)), (∀ q ∈ ms, q ∈ f.marks) →
      (∀ p ∈ acc, GoodPair fs all p) →
      ∀ p ∈ ms.foldl (fun m q => if q.1 = defaultLoc then m else btInsert q.1 (f.posOf q.2 + (before.length + lebLen f.byteLen)) m) acc,
        GoodPair fs all p := by
    intro ms
    induction ms with
    | nil => intro acc _ h; simpa using h
    | cons q qs ih =>
      intro acc hq hacc
      simp only [List.foldl_cons]
      apply ih
      · intro x hx; exact hq x (List.mem_cons_of_mem _ hx)
      · intro p hp
        split at hp
        · exact hacc p hp
        · rename_i hnd
          rcases btInsert_mem hp with rfl | hp
          · have hqm := hq q List.mem_cons_self
            have hk := hm q hqm
            obtain ⟨r2, hr2⟩ := entry_drop_op f q.2 hk
            refine ⟨f, hf, q.2, hk, hqm, hnd, r2 ++ rest, ?_⟩
            subst hall
            simp only
            have e : f.posOf q.2 + (before.length + lebLen f.byteLen) = before.length + (lebLen f.byteLen + f.posOf q.2) := by omega
            rw [e, List.append_assoc, List.drop_length_add_append]
            have hle : lebLen f.byteLen + f.posOf q.2 ≤ f.entry.length := by
              have h1 := congrArg List.length hr2
              simp only [List.length_drop, List.length_append] at h1
              have h2 : 0 < f.ops[q.2].length + r2.length ∨ f.ops[q.2].length + r2.length = 0 := by omega
              rcases Nat.lt_or_ge f.entry.length (lebLen f.byteLen + f.posOf q.2) with hlt | hge
              · -- then the drop is empty, so operator k is empty and so is the remainder: still fine
                have : f.entry.length - (lebLen f.byteLen + f.posOf q.2) = 0 := by omega
                -- posOf k ≤ body length always
                have hb : lebLen f.byteLen + f.posOf q.2 ≤ f.entry.length := by
                  unfold EmittedFunc.entry EmittedFunc.posOf EmittedFunc.body
                  simp only [List.length_append, lebBytes_length, EmittedFunc.byteLen, EmittedFunc.body]
                  have : (List.take q.2 f.ops).flatten.length ≤ f.ops.flatten.length := by
                    conv => rhs; rw [flatten_take_drop f.ops q.2]
                    simp
                  omega
                omega
              · exact hge
            rw [List.drop_append_of_le_length hle, hr2, List.append_assoc]
          · exact hacc p hp
  exact key f.marks acc (fun q h => h) hacc

/-- every entry the offset loop produces is good -/
theorem offsetLoop_sound (all : List UInt8) (allFs : List EmittedFunc) :
    ∀ (fs : List EmittedFunc) (before : List UInt8) (m : List (Nat × Nat)) (rs : List (Nat × Nat × Nat)),
      (∀ f ∈ fs, f ∈ allFs) → (∀ f ∈ fs, ∀ p ∈ f.marks, p.2 < f.ops.length) →
      (∃ rest, all = before ++ (fs.map EmittedFunc.entry).flatten ++ rest) →
      (∀ p ∈ m, GoodPair allFs all p) →
      ∀ p ∈ (offsetLoop fs before.length m rs).1, GoodPair allFs all p := by
  intro fs
  induction fs with
  | nil => intro before m rs _ _ _ hm; simpa [offsetLoop] using hm
  | cons f r ih =>
    intro before m rs hfs hmarks ⟨rest, hall⟩ hm
    simp only [offsetLoop]
    have hlen : before.length + lebLen f.byteLen + f.byteLen = (before ++ f.entry).length := by
      simp [EmittedFunc.entry, lebBytes_length, EmittedFunc.byteLen]; omega
    rw [hlen]
    apply ih (before ++ f.entry)
    · intro g hg; exact hfs g (List.mem_cons_of_mem _ hg)
    · intro g hg; exact hmarks g (List.mem_cons_of_mem _ hg)
    · exact ⟨rest, by simp [hall, List.append_assoc]⟩
    · apply collectOffsets_sound allFs all f (hfs f List.mem_cons_self) (hmarks f List.mem_cons_self) before
        ((r.map EmittedFunc.entry).flatten ++ rest)
      · simp [hall, List.append_assoc]
      · exact hm

theorem codeSectionBytes_split (fs : List EmittedFunc) :
    codeSectionBytes fs =
      ([10] ++ lebBytes (lebBytes fs.length ++ (fs.map EmittedFunc.entry).flatten).length ++ lebBytes fs.length)
        ++ (fs.map EmittedFunc.entry).flatten := by
  simp [codeSectionBytes, List.append_assoc]

end Walrus

namespace Walrus

def GoodRange (fs : List EmittedFunc) (all : List UInt8) (r : Nat × Nat × Nat) : Prop :=
  ∃ f ∈ fs, f.id = r.1 ∧ r.2.1 ≤ r.2.2 ∧ (all.drop r.2.1).take (r.2.2 - r.2.1) = f.entry

theorem offsetLoop_ranges_sound (all : List UInt8) (allFs : List EmittedFunc) :
    ∀ (fs : List EmittedFunc) (before : List UInt8) (m : List (Nat × Nat)) (rs : List (Nat × Nat × Nat)),
      (∀ f ∈ fs, f ∈ allFs) →
      (∃ rest, all = before ++ (fs.map EmittedFunc.entry).flatten ++ rest) →
      (∀ r ∈ rs, GoodRange allFs all r) →
      ∀ r ∈ (offsetLoop fs before.length m rs).2, GoodRange allFs all r := by
  intro fs
  induction fs with
  | nil => intro before m rs _ _ h; simpa [offsetLoop] using h
  | cons f r ih =>
    intro before m rs hfs ⟨rest, hall⟩ hrs
    simp only [offsetLoop]
    have hlen : before.length + lebLen f.byteLen + f.byteLen = (before ++ f.entry).length := by
      simp [EmittedFunc.entry, lebBytes_length, EmittedFunc.byteLen]; omega
    rw [hlen]
    apply ih (before ++ f.entry)
    · intro g hg; exact hfs g (List.mem_cons_of_mem _ hg)
    · exact ⟨rest, by simp [hall, List.append_assoc]⟩
    · intro x hx
      rcases List.mem_append.1 hx with hx | hx
      · exact hrs x hx
      · simp only [List.mem_singleton] at hx
        subst hx
        refine ⟨f, hfs f List.mem_cons_self, rfl, ?_, ?_⟩
        · simp only; omega
        · simp only
          have e1 : before.length + lebLen f.byteLen - lebLen f.byteLen = before.length := by omega
          have e2 : (before ++ f.entry).length - before.length = f.entry.length := by simp
          rw [e1, e2, hall]
          simp [List.append_assoc]

theorem mem_insertRange {r x : Nat × Nat × Nat} {l : List (Nat × Nat × Nat)} (h : x ∈ insertRange r l) :
    x = r ∨ x ∈ l := by
  induction l with
  | nil => simp [insertRange] at h; exact Or.inl h
  | cons y ys ih =>
    unfold insertRange at h
    split at h
    · rcases List.mem_cons.1 h with h | h
      · exact Or.inl h
      · exact Or.inr h
    · rcases List.mem_cons.1 h with h | h
      · exact Or.inr (h ▸ List.mem_cons_self)
      · rcases ih h with h | h
        · exact Or.inl h
        · exact Or.inr (List.mem_cons_of_mem _ h)

theorem mem_sortRanges {x : Nat × Nat × Nat} {l : List (Nat × Nat × Nat)} (h : x ∈ l.foldr insertRange []) : x ∈ l := by
  induction l with
  | nil => simp at h
  | cons y ys ih =>
    simp only [List.foldr_cons] at h
    rcases mem_insertRange h with h | h
    · exact h ▸ List.mem_cons_self
    · exact List.mem_cons_of_mem _ (ih h)

end Walrus
