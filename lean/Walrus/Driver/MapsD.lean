import Walrus.Maps
import Walrus.Driver.ModuleD

/-! `maps <module text>` → `P y:… f:… t:… m:… g:… e:… d:… x:<f>=<ids>;… | E y:<id>=<idx>,… f:… …` -/
namespace Walrus.Driver

def showIds (l : List Nat) : String := joinWith "," (l.map toString)
def showPairs (l : List (Nat × Nat)) : String := joinWith "," (l.map fun p => s!"{p.1}={p.2}")

def handleMaps (ws : List String) : String :=
  let m := parseModule ws
  let p := parseMaps m
  let ps := "P y:" ++ showIds p.types ++ " f:" ++ showIds p.funcs ++ " t:" ++ showIds p.tables ++ " m:" ++ showIds p.mems ++
    " g:" ++ showIds p.globals ++ " e:" ++ showIds p.elems ++ " d:" ++ showIds p.datas ++
    " x:" ++ joinWith ";" (p.locals.map fun q => s!"{q.1}=" ++ showIds q.2)
  match emitMaps m with
  | none => ps ++ " | panic"
  | some e => ps ++ " | E y:" ++ showPairs e.types ++ " f:" ++ showPairs e.funcs ++ " t:" ++ showPairs e.tables ++
      " m:" ++ showPairs e.mems ++ " g:" ++ showPairs e.globals ++ " e:" ++ showPairs e.elems ++ " d:" ++ showPairs e.datas

end Walrus.Driver
