import Walrus.Offsets
import Walrus.Gen.CodeStart
import Walrus.Driver.CodeD

/-!
`offsets <prefixLen> <fix> B <declLen>:<len>,<len>,… B … || <code request without the leading word>`
   one `B` group per emitted function, in emission order: byte length of the local declarations and
   of every emitted operator (observed from the output binary);
   `fix` is ignored: what is subtracted from the first-entry offset to obtain `code_section_start`
   is read off the regenerated `Gen.codeSectionStartExprs` (`… - 2`, or `… - function_count_leb_len`)
answer: `start=<n> ranges=<id>:<s>-<e>,… map=<loc>:<off>,…` or `panic` / `length-mismatch`
-/
namespace Walrus.Driver

def parseLens (s : String) : Option (Nat × List Nat) :=
  match s.splitOn ":" with
  | [d, ls] => d.toNat?.map fun dl => (dl, if ls = "" then [] else (ls.splitOn ",").filterMap String.toNat?)
  | _ => none

def handleOffsets (ws : List String) : String :=
  match ws with
  | pre :: fix :: rest =>
    match splitOn1 rest "||" with
    | [bs, codeReq] =>
      let lens := (bs.filter (· ≠ "B")).filterMap parseLens
      match codeReq with
      | ni :: "T" :: r2 =>
        match splitOn1 r2 "F" with
        | sigs :: funcs =>
          let c : InCode := ⟨sigs.map parseSig, ni.toNat?.getD 0, funcs.filterMap parseInFunc⟩
          match roundTripCode c with
          | none => "panic"
          | some o =>
            if o.funcs.length ≠ lens.length then "length-mismatch" else
            let efs := (o.funcs.zip lens).map fun p =>
              (⟨p.1.id, List.replicate p.2.1 0, p.2.2.map (fun l => List.replicate l 0), p.1.marks⟩ : EmittedFunc)
            if (o.funcs.zip lens).any (fun p => p.1.ops.length ≠ p.2.2.length) then "length-mismatch" else
            let _ := fix
            let startFix? : Option Nat := match Gen.codeSectionStartExprs with
              | ["code_section_start_offset - 2"] => some 2
              | ["code_section_start_offset - function_count_leb_len"] => some (lebLen efs.length)
              | _ => none
            match startFix? with
            | none => "unknown-code-section-start-expression"
            | some startFix =>
            let ct := codeTransform (pre.toNat?.getD 0) efs startFix
            s!"start={ct.codeSectionStart} ranges=" ++
              joinWith "," (ct.functionRanges.map fun r => s!"{r.1}:{r.2.1}-{r.2.2}") ++ " map=" ++
              joinWith "," (ct.instructionMap.map fun p => s!"{p.1}:{p.2}")
        | _ => "bad-request"
      | _ => "bad-request"
    | _ => "bad-request"
  | _ => "bad-request"

end Walrus.Driver
