import Walrus.Code
import Walrus.Driver.BodyD

/-!
`code <nimports> T <sig> <sig> … F <func> F <func> …`
   sig  = `<params>><results>`, types comma separated (`>` = no params, no results)
   func = `<typeidx> <locals: - | n x ty , …> <op>@<loc> <op>@<loc> …`
answer: `T <sig> … | t<typeidx> [<decls>] <op> … | …` in emission order, preceded by `O<order>`;
`panic` if the model's parse or emit panics.
-/
namespace Walrus.Driver

def parseTys (s : String) : List String := if s = "" then [] else s.splitOn ","

def parseSig (s : String) : Sig :=
  match s.splitOn ">" with
  | [a, b] => (parseTys a, parseTys b)
  | _ => ([], [])

def showSig (s : Sig) : String := joinWith "," s.1 ++ ">" ++ joinWith "," s.2

def parseLocalDecls (s : String) : List (Nat × String) :=
  if s = "-" then [] else (s.splitOn ",").filterMap fun g => match g.splitOn "x" with
    | n :: rest => n.toNat?.map (·, joinWith "x" rest)
    | _ => none

def parseOpLoc (w : String) : Op × Nat :=
  match w.splitOn "@" with
  | [o, l] => (parseOp o, l.toNat?.getD 0)
  | _ => (parseOp w, 0)

def splitOn1 (ws : List String) (sep : String) : List (List String) :=
  let rec go (ws : List String) (cur : List String) (acc : List (List String)) : List (List String) :=
    match ws with
    | [] => (cur.reverse :: acc).reverse
    | w :: r => if w = sep then go r [] (cur.reverse :: acc) else go r (w :: cur) acc
  go ws [] []

def parseInFunc (ws : List String) : Option InFunc :=
  match ws with
  | t :: l :: ops => t.toNat?.map fun ti => ⟨ti, parseLocalDecls l, ops.map parseOpLoc⟩
  | _ => none

def showOutFunc (f : OutFunc) : String :=
  s!"t{f.tyIdx} [" ++ joinWith "," (f.locals.map fun d => s!"{d.1}x{d.2}") ++ "]" ++
    (if f.ops.isEmpty then "" else " " ++ joinWith " " (f.ops.map showOp))

def handleCode (ws : List String) : String :=
  match ws with
  | ni :: "T" :: rest =>
    match splitOn1 rest "F" with
    | sigs :: funcs =>
      let c : InCode := ⟨sigs.map parseSig, ni.toNat?.getD 0, funcs.filterMap parseInFunc⟩
      if c.funcs.length ≠ funcs.length then "bad-request" else
      match roundTripCode c with
      | none => "panic"
      | some o =>
        "O" ++ joinWith "," (o.order.map toString) ++ " T " ++ joinWith " " (o.sigs.map showSig) ++
          joinWith "" (o.funcs.map fun f => " | " ++ showOutFunc f)
    | _ => "bad-request"
  | _ => "bad-request"

end Walrus.Driver
