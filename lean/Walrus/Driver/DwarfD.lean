import Walrus.Dwarf
import Walrus.Driver.Util

/-!
`dwarf G <s>:<e>:<id>… I <addr>:<loc>… T <start> R <id>:<s>:<e>… M <loc>:<off>… S <low>:<len>… L a<base> r<off>:<line> … e<off> …`
answer: `S <low>:<high> … L r<addr>:<line> … e<addr> …` (`!error` appended if the row loop errors)
-/
namespace Walrus.Driver

def nat3 (s : String) : Option (Nat × Nat × Nat) :=
  match s.splitOn ":" with
  | [a, b, c] => match a.toNat?, b.toNat?, c.toNat? with
    | some x, some y, some z => some (x, y, z)
    | _, _, _ => none
  | _ => none

def nat2 (s : String) : Option (Nat × Nat) :=
  match s.splitOn ":" with
  | [a, b] => match a.toNat?, b.toNat? with
    | some x, some y => some (x, y)
    | _, _ => none
  | _ => none

def sections (ws : List String) (tags : List String) : List (String × List String) :=
  let rec go (ws : List String) (cur : String) (acc : List String) (out : List (String × List String)) :=
    match ws with
    | [] => (out ++ [(cur, acc.reverse)])
    | w :: r => if tags.contains w then go r w [] (out ++ [(cur, acc.reverse)]) else go r cur (w :: acc) out
  go ws "" [] []

def parseLineInstr (w : String) : Option LineInstr :=
  match w.toList with
  | 'a' :: r => (String.ofList r).toNat?.map LineInstr.setAddress
  | 'e' :: r => (String.ofList r).toNat?.map LineInstr.endSequence
  | 'r' :: r => (nat2 (String.ofList r)).map fun p => LineInstr.row p.1 p.2
  | _ => none

def sortByFst (l : List (Nat × Nat)) : List (Nat × Nat) :=
  l.foldr (fun x acc => let rec ins (y : Nat × Nat) : List (Nat × Nat) → List (Nat × Nat)
    | [] => [y]
    | z :: zs => if y.1 ≤ z.1 then y :: z :: zs else z :: ins y zs
    ins x acc) []

def handleDwarf (ws : List String) : String :=
  let secs := sections ws ["G", "I", "T", "R", "M", "S", "L"]
  let get := fun t => (secs.find? (·.1 = t)).map (·.2) |>.getD []
  let ranges := (get "G").filterMap nat3
  let instrs := sortByFst ((get "I").filterMap nat2)
  let g : AddrGen := ⟨ranges, instrs⟩
  let start := ((get "T").head?.bind String.toNat?).getD 0
  let outRanges := (get "R").filterMap nat3
  let map := (get "M").filterMap nat2
  let ct : CodeTransform := ⟨map, start, outRanges⟩
  let subs := (get "S").filterMap nat2
  let prog := (get "L").filterMap parseLineInstr
  let subsOut := subs.map fun p => convertSubprogram g ct p.1 p.2
  let (rows, err) := match lineRun g ct {} prog with
    | some st => (st.out, false)
    | none => ([], true)
  "S " ++ joinWith " " (subsOut.map fun p => s!"{p.1}:{p.2}") ++ " L " ++
    joinWith " " (rows.map fun r => if r.endSeq then s!"e{r.address}" else s!"r{r.address}:{r.line}") ++
    (if err then " !error" else "")

end Walrus.Driver
