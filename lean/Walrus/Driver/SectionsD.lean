import Walrus.Sections
import Walrus.Driver.Util

/-!
`sect <n><p><d> <verhex> <valid> <script> {<namehex> <datahex> <prod> <modname> <dw>}*`
  cfg bits: skip_name, skip_producers, generate_dwarf;  script: letters e (emit) / g (gc)
  prod    : `-` or `fieldhex=valhex/verhex,valhex/verhex;fieldhex=…`   (decoded prefix of a producers payload)
  modname : `-` (none) or `=<hex>`
  dw      : 0/1 (non-empty `.debug*` payload)
answer: `calls=<k> <emit> | <emit> …`, an emit being `,`-separated sections
  `N=<hex>`  `P<fields as above>`  `D`  `R<namehex>:<datahex>`;  a failed parse answers `err`.
-/
namespace Walrus.Driver

def parseFields (s : String) : List PField :=
  if s = "-" then [] else
  (s.splitOn ";").map fun f =>
    match f.splitOn "=" with
    | [n, vs] =>
      let vals := if vs = "" then [] else (vs.splitOn ",").map fun v =>
        match v.splitOn "/" with
        | [a, b] => (unhexStr a, unhexStr b)
        | _ => ("?", "?")
      ⟨unhexStr n, vals⟩
    | _ => ⟨"?", []⟩

def showFields (fs : List PField) : String :=
  if fs.isEmpty then "-" else
  joinWith ";" (fs.map fun f => hexStr f.name ++ "=" ++ joinWith "," (f.values.map fun v => hexStr v.1 ++ "/" ++ hexStr v.2))

def parseInCs : List String → List InC
  | n :: d :: p :: mn :: dw :: r =>
    let modname := match mn.toList with
      | '=' :: h => some (unhexStr (String.ofList h))
      | _ => none
    ⟨unhexStr n, d, parseFields p, modname, dw == "1"⟩ :: parseInCs r
  | _ => []

def showOutC : OutC → String
  | .names n => "N=" ++ (match n with | some s => hexStr s | none => "?")
  | .producers fs => "P" ++ showFields fs
  | .dwarf => "D"
  | .raw n d => "R" ++ hexStr n ++ ":" ++ d

def parseScript (s : String) : List SOp :=
  s.toList.filterMap fun c => if c == 'e' then some SOp.emit else if c == 'g' then some SOp.gc else none

def handleSect (ws : List String) : String :=
  match ws with
  | bits :: ver :: valid :: script :: rest =>
    match bits.toList with
    | [n, p, d] =>
      let cfg : SCfg := ⟨n == '1', p == '1', d == '1'⟩
      match sparse cfg (unhexStr ver) (valid == "1") (parseInCs rest) with
      | none => "err"
      | some m =>
        let outs := srun m (parseScript script)
        s!"calls={m.onParseCalls} " ++ joinWith " | " (outs.map fun o => if o.isEmpty then "-" else joinWith "," (o.map showOutC))
    | _ => "bad-request"
  | _ => "bad-request"

end Walrus.Driver
