import Walrus.Arena
import Walrus.Driver.Util

/-! `arena plain|set <op> <op> …` — run one history on the model, print one answer per op. -/
namespace Walrus.Driver

def parseAOp (w : String) : Option (AOp Nat) :=
  match w.toList with
  | 'a' :: r => (String.ofList r).toNat?.map AOp.alloc
  | 'd' :: r => (String.ofList r).toNat?.map AOp.delete
  | 'g' :: r => (String.ofList r).toNat?.map AOp.get
  | 'x' :: r => (String.ofList r).toNat?.map AOp.index
  | 'c' :: r => (String.ofList r).toNat?.map AOp.contains
  | 'f' :: r => (String.ofList r).toNat?.map AOp.find
  | ['i', 't'] => some AOp.iter
  | ['n'] => some AOp.len
  | _ => none

def showAOut : AOut Nat → String
  | .id i => s!"id{i}"
  | .ok => "ok"
  | .panic => "absent"
  | .val (some v) => s!"some{v}"
  | .val none => "none"
  | .bool b => if b then "t" else "f"
  | .items l => "[" ++ joinWith "," (l.map fun p => s!"{p.1}:{p.2}") ++ "]"
  | .nat n => s!"n{n}"
  | .found (some i) => s!"at{i}"
  | .found none => "nowhere"

def parseOps (ws : List String) : Option (List (AOp Nat)) := ws.mapM parseAOp

/-- the tombstoned value is never observable; model `on_delete` as "reset payload to 0" -/
def handleArena (ws : List String) : String :=
  match ws with
  | "plain" :: rest =>
    match parseOps rest with
    | some ops => joinWith " " ((Arena.run (fun _ => 0) Arena.empty ops).2.map showAOut)
    | none => "bad-op"
  | "set" :: rest =>
    match parseOps rest with
    | some ops => joinWith " " ((ArenaSet.run (fun _ => 0) ArenaSet.empty ops).2.map showAOut)
    | none => "bad-op"
  | _ => "bad-op"

end Walrus.Driver
