import Walrus.Builder
import Walrus.Driver.Util

/-! parsing / printing of operator tokens, shared by the `builder` and `body` requests -/
namespace Walrus.Driver

def parseBT (r : List Char) : BT :=
  match r with
  | 'v' :: t => .val (String.ofList t)
  | 'y' :: n => .idx ((String.ofList n).toNat?.getD 0)
  | _ => .empty

def parseArg (s : String) : Arg :=
  match s.toList with
  | 'b' :: r => .bt (parseBT r)
  | 'i' :: ':' :: r => match (String.ofList r).toNat? with
      | some n => .num n
      | none => .imm (String.ofList r)
  | c :: ':' :: r => match (String.ofList r).toNat? with
      | some n => .ref (String.singleton c) n
      | none => .imm s
  | _ => .imm s

def parseOp (s : String) : Op :=
  match s.splitOn "/" with
  | [] => ⟨"?", []⟩
  | n :: as => ⟨n, as.map parseArg⟩

def showArg : Arg → String
  | .ref sp n => s!"{sp}:{n}"
  | .num n => s!"i:{n}"
  | .imm s => "i:" ++ s
  | .bt .empty => "be"
  | .bt (.val t) => "bv" ++ t
  | .bt (.idx n) => s!"by{n}"

def showOp (o : Op) : String := joinWith "/" (o.name :: o.args.map showArg)

/-- an operator token whose sequence references are written `s:<id>` -/
def parseBInstr (s : String) : BInstr :=
  let o := parseOp s
  let seqs := o.args.filterMap fun a => match a with | .ref "s" n => some n | _ => none
  if o.name = "Block" then (match seqs with | [x] => .block x | _ => .leaf o)
  else if o.name = "Loop" then (match seqs with | [x] => .loop x | _ => .leaf o)
  else if o.name = "IfElse" then (match seqs with | [c, a] => .ifElse c a | _ => .leaf o)
  else if o.name = "Br" then (match seqs with | [x] => .br x | _ => .leaf o)
  else if o.name = "BrIf" then (match seqs with | [x] => .brIf x | _ => .leaf o)
  else if o.name = "BrTable" then (match seqs.reverse with | d :: ts => .brTable ts.reverse d | _ => .leaf o)
  else .leaf o

def parseSeqTy (s : String) : SeqTy :=
  match s.toList with
  | ['e'] => .empty
  | 'v' :: r => .val (String.ofList r)
  | 'y' :: r => .multi ((String.ofList r).toNat?.getD 0)
  | _ => .empty

def parsePairs (s : String) : List (Nat × Nat) :=
  if s = "" then [] else
  (s.splitOn ",").filterMap fun p => match p.splitOn ":" with
    | [a, b] => match a.toNat?, b.toNat? with
      | some x, some y => some (x, y)
      | _, _ => none
    | _ => none

def parseBOp (w : String) : Option BOp :=
  match w.toList with
  | 'D' :: r => match (String.ofList r).splitOn ":" with
      | [_, ty] => some (.dangling (parseSeqTy ty))
      | _ => none
  | 'P' :: r =>
      let s := String.ofList r
      match s.splitOn ":" with
      | seq :: rest => seq.toNat?.map fun q => .push q (parseBInstr (joinWith ":" rest))
      | _ => none
  | 'A' :: r =>
      let s := String.ofList r
      match s.splitOn ":" with
      | seq :: pos :: rest => match seq.toNat?, pos.toNat? with
        | some q, some p => some (.insertAt q p (parseBInstr (joinWith ":" rest)))
        | _, _ => none
      | _ => none
  | _ => none

/-- ids handed out by the `D` steps of a trace, as the harness observed them -/
def observedIds (ws : List String) : List Nat :=
  ws.filterMap fun w => match w.toList with
    | 'D' :: r => match (String.ofList r).splitOn ":" with
      | [id, _] => id.toNat?
      | _ => none
    | _ => none

/--
`builder <entry> np<k> L<id:ty,…> F<id:idx> G<id:idx,…> Y<id:idx> | <trace>`
answer: `[<n>x<ty>,…] <op> <op> …` — declared locals and the emitted body; `panic` when a builder
step or the emission panics; `ids-differ` when the sequence ids handed out differ from the model's.
-/
def handleBuilder (ws : List String) : String :=
  match ws with
  | entry :: np :: ls :: fs :: gs :: ys :: "|" :: trace =>
    let e := entry.toNat?.getD 0
    let nparams := (dropStr np 2).toNat?.getD 0
    let locals : List (Nat × String) :=
      let s := dropStr ls 1
      if s = "" then [] else (s.splitOn ",").filterMap fun p => match p.splitOn ":" with
        | [a, t] => a.toNat?.map (·, t)
        | _ => none
    let ops := trace.filterMap parseBOp
    if ops.length ≠ trace.length then "bad-trace" else
    match brun [] ops with
    | none => "panic"
    | some st =>
      let expectIds := List.range st.length
      if observedIds trace ≠ expectIds then "ids-differ" else
      let ar := st.toArena
      let evs := bodyEvents ar (arenaFuel ar) e
      if !evs.1.isEmpty then "stuck" else
      let used := usedLocals evs.2
      let args := (locals.take nparams).map (·.1)
      let tyOf := fun l => match locals.find? (·.1 = l) with | some p => p.2 | none => "?"
      let (decls, lmap) := emitLocals args tyOf used
      let maps : IdMaps := { funcs := parsePairs (dropStr fs 1), globals := parsePairs (dropStr gs 1),
                             types := parsePairs (dropStr ys 1), locals := lmap,
                             -- memories are created in order and none is deleted: id = index
                             identity := ["m"] }
      match emitBody maps ar e with
      | none => "panic"
      | some out =>
        "[" ++ joinWith "," (decls.map fun d => s!"{d.1}x{d.2}") ++ "] " ++ joinWith " " (out.map showOp)
  | _ => "bad-request"

end Walrus.Driver
