import Walrus.Module
import Walrus.BodiesOK
import Walrus.Driver.CodeD

/-! `module <text>` — text format documented in harness/src/modtext.rs; the answer is the same
    format for the predicted output module (without operator offsets), or `panic`. -/
namespace Walrus.Driver

def optNat (s : String) : Option Nat := if s = "-" then none else s.toNat?
def showOptNat : Option Nat → String | none => "-" | some n => toString n
def b01 (s : String) : Bool := s = "1"
def s01 (b : Bool) : String := if b then "1" else "0"

def parseTableTy (s : String) : Option TableTyM :=
  match s.splitOn "," with
  | [e, mn, mx, t64] => mn.toNat?.map fun m => ⟨e, m, optNat mx, b01 t64⟩
  | _ => none
def showTableTy (t : TableTyM) : String := s!"{t.elem},{t.min},{showOptNat t.max},{s01 t.table64}"

def parseMemTy (s : String) : Option MemTyM :=
  match s.splitOn "," with
  | [mn, mx, sh, m64, pl] => mn.toNat?.map fun m => ⟨m, optNat mx, b01 sh, b01 m64, optNat pl⟩
  | _ => none
def showMemTy (m : MemTyM) : String := s!"{m.min},{showOptNat m.max},{s01 m.shared},{s01 m.mem64},{showOptNat m.pageLog2}"

def parseCExpr (s : String) : CExprM := (s.splitOn "+").map parseOp
def showCExpr (c : CExprM) : String := if c.isEmpty then "?" else joinWith "+" (c.map showOp)

def parseImport (s : String) : Option (String × String × ImportDescM) :=
  match s.splitOn ":" with
  | [m, n, d] =>
    let desc : Option ImportDescM := match d.toList with
      | 'f' :: r => (String.ofList r).toNat?.map ImportDescM.func
      | 't' :: r => (parseTableTy (String.ofList r)).map ImportDescM.table
      | 'm' :: r => (parseMemTy (String.ofList r)).map ImportDescM.mem
      | 'g' :: r => match (String.ofList r).splitOn "," with
          | [t, mu, sh] => some (ImportDescM.global ⟨t, b01 mu, b01 sh⟩)
          | _ => none
      | _ => none
    desc.map fun x => (m, n, x)
  | _ => none

def showImport (i : String × String × ImportDescM) : String :=
  i.1 ++ ":" ++ i.2.1 ++ ":" ++ (match i.2.2 with
    | .func t => s!"f{t}"
    | .table t => "t" ++ showTableTy t
    | .mem m => "m" ++ showMemTy m
    | .global g => s!"g{g.ty},{s01 g.mutable},{s01 g.shared}")

def parseGlobal (s : String) : Option (GlobalTyM × CExprM) :=
  match s.splitOn "," with
  | t :: mu :: sh :: rest => some (⟨t, b01 mu, b01 sh⟩, parseCExpr (joinWith "," rest))
  | _ => none

def parseElem (s : String) : Option ElemM :=
  match s.splitOn ";" with
  | [fl, md, it] =>
    let mode : Option ElemModeM := match md.toList with
      | ['p'] => some .passive
      | ['d'] => some .declared
      | 'a' :: r => match (String.ofList r).splitOn ":" with
          | t :: rest => some (.active (optNat t) (parseCExpr (joinWith ":" rest)))
          | _ => none
      | _ => none
    let items : Option ElemItemsM := match it.toList with
      | 'f' :: ':' :: r =>
        let s := String.ofList r
        some (.funcs (if s = "" then [] else (s.splitOn ",").filterMap String.toNat?))
      | 'x' :: r => match (String.ofList r).splitOn ":" with
          | ty :: rest =>
            let s := joinWith ":" rest
            -- const expressions are separated by commas; operator tokens contain no commas
            some (.exprs ty (if s = "" then [] else (s.splitOn ",").map parseCExpr))
          | _ => none
      | _ => none
    match fl.toNat?, mode, items with
    | some f, some m, some i => some ⟨f, m, i⟩
    | _, _, _ => none
  | _ => none

def showElem (e : ElemM) : String :=
  let md := match e.mode with
    | .passive => "p" | .declared => "d"
    | .active t off => "a" ++ showOptNat t ++ ":" ++ showCExpr off
  let it := match e.items with
    | .funcs fs => "f:" ++ joinWith "," (fs.map toString)
    | .exprs ty es => "x" ++ ty ++ ":" ++ joinWith "," (es.map showCExpr)
  s!"{e.flag};{md};{it}"

def parseData (s : String) : Option DataM :=
  match s.splitOn ";" with
  | [fl, md, bytes] =>
    let mode : Option DataModeM := match md.toList with
      | ['p'] => some .passive
      | 'a' :: r => match (String.ofList r).splitOn ":" with
          | m :: rest => m.toNat?.map fun k => .active k (parseCExpr (joinWith ":" rest))
          | _ => none
      | _ => none
    match fl.toNat?, mode with
    | some f, some m => some ⟨f, m, bytes⟩
    | _, _ => none
  | _ => none

def showData (d : DataM) : String :=
  let md := match d.mode with
    | .passive => "p"
    | .active m off => s!"a{m}:" ++ showCExpr off
  s!"{d.flag};{md};{d.bytes}"

def parseNameMap (s : String) : List (Nat × String) :=
  if s = "" then [] else (s.splitOn ",").filterMap fun p => match p.splitOn "=" with
    | [i, n] => i.toNat?.map (·, n)
    | _ => none
def showNameMap (l : List (Nat × String)) : String := joinWith "," (l.map fun p => s!"{p.1}={p.2}")

def parseNames (ws : List String) : NamesM :=
  ws.foldl (fun n w => match w.toList with
    | 'M' :: r => { n with module := some (String.ofList r) }
    | 'F' :: r => { n with funcs := parseNameMap (String.ofList r) }
    | 'L' :: r =>
      let s := String.ofList r
      { n with locals := if s = "" then [] else (s.splitOn ";").filterMap fun g => match g.splitOn ":" with
          | [f, m] => f.toNat?.map (·, parseNameMap m)
          | _ => none }
    | 'Y' :: r => { n with types := parseNameMap (String.ofList r) }
    | 'B' :: r => { n with tables := parseNameMap (String.ofList r) }
    | 'E' :: r => { n with mems := parseNameMap (String.ofList r) }
    | 'G' :: r => { n with globals := parseNameMap (String.ofList r) }
    | 'S' :: r => { n with elems := parseNameMap (String.ofList r) }
    | 'D' :: r => { n with datas := parseNameMap (String.ofList r) }
    | _ => n) {}

def showNames (n : NamesM) : String :=
  (match n.module with | some m => " M" ++ m | none => "") ++
  " F" ++ showNameMap n.funcs ++
  " L" ++ joinWith ";" (n.locals.map fun p => s!"{p.1}:" ++ showNameMap p.2) ++
  " Y" ++ showNameMap n.types ++ " B" ++ showNameMap n.tables ++ " E" ++ showNameMap n.mems ++
  " G" ++ showNameMap n.globals ++ " S" ++ showNameMap n.elems ++ " D" ++ showNameMap n.datas

def parseCodeGroups (ws : List String) : List (List (Nat × String) × List (Op × Nat)) :=
  (splitOn1 ws "|").filterMap fun g => match g with
    | [] => none
    | l :: ops => some (parseLocalDecls l, ops.map parseOpLoc)

def moduleTags : List String := ["T", "IM", "FN", "TB", "ME", "GL", "EX", "ST", "EL", "DC", "DA", "CO", "NM", "RT"]

def parseModule (ws : List String) : ModuleM :=
  let secs := sectionsBy ws moduleTags
  let get := fun t => (secs.find? (·.1 = t)).map (·.2) |>.getD []
  let has := fun t => (secs.find? (·.1 = t)).isSome
  { sigs := (get "T").map parseSig,
    imports := (get "IM").filterMap parseImport,
    funcs := (get "FN").filterMap String.toNat?,
    tables := (get "TB").filterMap parseTableTy,
    mems := (get "ME").filterMap parseMemTy,
    globals := (get "GL").filterMap parseGlobal,
    exports := (get "EX").filterMap fun s => match s.splitOn "," with
      | [n, k, i] => i.toNat?.map fun x => (n, k, x)
      | _ => none,
    start := (get "ST").head?.bind String.toNat?,
    elems := (get "EL").filterMap parseElem,
    dataCount := (get "DC").head?.bind String.toNat?,
    datas := (get "DA").filterMap parseData,
    code := parseCodeGroups (get "CO"),
    roots := (get "RT").filterMap fun s => match s.splitOn ":" with
      | [k, i] => i.toNat?.map fun x => (k, x)
      | _ => none,
    names := if has "NM" then
        let imps := (get "IM").filterMap parseImport
        let cnt := fun (k : String) => (imps.filter fun i => match i.2.2, k with
          | .func _, "f" => true | .table _, "t" => true | .mem _, "m" => true | .global _, "g" => true
          | _, _ => false).length
        let nF := cnt "f" + ((get "FN").filterMap String.toNat?).length
        let n1 := appliedNameSections nF ((splitOn1 (get "NM") "&").map parseNames)
        some (inRangeNames nF (get "T").length (cnt "t" + ((get "TB").filterMap parseTableTy).length)
          (cnt "m" + ((get "ME").filterMap parseMemTy).length) (cnt "g" + ((get "GL").filterMap parseGlobal).length)
          ((get "EL").filterMap parseElem).length ((get "DA").filterMap parseData).length n1)
      else none }
where
  sectionsBy (ws : List String) (tags : List String) : List (String × List String) :=
    let rec go (ws : List String) (cur : String) (acc : List String) (out : List (String × List String)) :=
      match ws with
      | [] => (out ++ [(cur, acc.reverse)])
      | w :: r => if tags.contains w then go r w [] (out ++ [(cur, acc.reverse)]) else go r cur (w :: acc) out
    go ws "" [] []

def showModule (m : ModuleM) : String :=
  let sp := fun (l : List String) => joinWith "" (l.map (" " ++ ·))
  "T" ++ sp (m.sigs.map showSig) ++ " IM" ++ sp (m.imports.map showImport) ++ " FN" ++ sp (m.funcs.map toString) ++
  " TB" ++ sp (m.tables.map showTableTy) ++ " ME" ++ sp (m.mems.map showMemTy) ++
  " GL" ++ sp (m.globals.map fun g => s!"{g.1.ty},{s01 g.1.mutable},{s01 g.1.shared}," ++ showCExpr g.2) ++
  " EX" ++ sp (m.exports.map fun e => s!"{e.1},{e.2.1},{e.2.2}") ++
  (match m.start with | some s => s!" ST {s}" | none => "") ++
  " EL" ++ sp (m.elems.map showElem) ++
  (match m.dataCount with | some n => s!" DC {n}" | none => "") ++
  " DA" ++ sp (m.datas.map showData) ++
  " CO" ++ joinWith "" (m.code.map fun f =>
    " " ++ (if f.1.isEmpty then "-" else joinWith "," (f.1.map fun d => s!"{d.1}x{d.2}")) ++ sp (f.2.map fun o => showOp o.1) ++ " |") ++
  (match m.names with | some n => " NM" ++ showNames n | none => "")

def handleModule (ws : List String) : String :=
  let m := parseModule ws
  -- the hypotheses of `C02.parse_then_emit_answers_checked`, evaluated on this case (when the
  -- model's parse of the code-related sections succeeds; otherwise the answer is `panic` as before)
  let hyp : Option String :=
    if m.code.length != m.funcs.length then none else
    match parseCode ⟨m.sigs, importedCount m "f", m.code.zip m.funcs |>.map fun p => ⟨p.2, p.1.1, p.1.2⟩⟩ with
    | none => none
    | some pfs =>
      if !bodiesOKc m pfs then some "body-not-well-nested"
      else if !sectionsOK m then some "section-not-well-formed"
      else if !funcRefsOK m then some "function-reference-out-of-range"
      else none
  match hyp with
  | some w => w
  | none =>
    match roundTripModule m with
    | some o => showModule o
    | none => "panic"

end Walrus.Driver
