import Walrus.Gc
import Walrus.BodiesOK
import Walrus.Driver.ModuleD

/-! `gc <module text>` → predicted output module of parse; gc::run; emit (or `panic`);
    `used <module text>` → the used set, sorted: `f:… t:… g:… m:… y:… d:… e:…` -/
namespace Walrus.Driver

def handleGc (ws : List String) : String :=
  let m := parseModule ws
  match mkGcInfo m with
  | none => "panic"
  | some g =>
    if !gcWF g then "reference-out-of-range" else
    if !usedFinished g then "worklist-fuel-exhausted" else
    -- the hypotheses of `C02.after_gc_the_whole_module_emits_checked`, evaluated on this case
    if m.code.length != m.funcs.length then "code-and-function-sections-differ" else
    if !bodiesOK m g then "body-not-well-nested" else
    if !sectionsOK m then "section-not-well-formed" else
    match gcRoundTrip m with
    | some o => showModule o
    | none => "panic"

def handleUsed (ws : List String) : String :=
  match mkGcInfo (parseModule ws) with
  | none => "panic"
  | some g =>
    let u := usedSet g
    let of := fun (sp : String) => joinWith "," (((u.filter (·.1 = sp)).map (·.2)).eraseDups.mergeSort.map toString)
    s!"f:{of "f"} t:{of "t"} g:{of "g"} m:{of "m"} y:{of "y"} d:{of "d"} e:{of "e"}"

end Walrus.Driver
