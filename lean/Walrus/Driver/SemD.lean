import Walrus.Run
import Walrus.Replace
import Walrus.Driver.ModuleD

/-! `exec <seed> <rounds> <gas> <module text>` → the observation of the scripted run;
    `execeq <seed> <rounds> <gas> <module A> || <module B>` → `same` or where the observations part -/
namespace Walrus.Driver
open Walrus.Sem

def splitAtBar (ws : List String) : List String × List String :=
  let a := ws.takeWhile (· ≠ "||")
  (a, (ws.drop (a.length + 1)))

def firstDiff (a b : List String) (k : Nat) : String :=
  match a, b with
  | [], [] => "same"
  | x :: xs, y :: ys => if x = y then firstDiff xs ys (k + 1) else s!"differ at item {k}: A<{x}> B<{y}>"
  | x :: _, [] => s!"differ at item {k}: A<{x}> B<end>"
  | [], y :: _ => s!"differ at item {k}: A<end> B<{y}>"

def handleExec (ws : List String) : String :=
  match ws with
  | sd :: rn :: gs :: rest =>
    match sd.toNat?, rn.toNat?, gs.toNat? with
    | some seed, some rounds, some gas => observe (parseModule rest) seed rounds gas
    | _, _, _ => "bad-op"
  | _ => "bad-op"

/-- the same run on the module as walrus's IR can represent it: memarg offsets reduced modulo 2^32
    (used only to attribute a behaviour difference to the open finding D5) -/
def handleExecW (ws : List String) : String :=
  match ws with
  | sd :: rn :: gs :: rest =>
    match sd.toNat?, rn.toNat?, gs.toNat? with
    | some seed, some rounds, some gas =>
      let m := parseModule rest
      let m' := { m with code := m.code.map fun f => (f.1, f.2.map fun o => (({ o.1 with args := wrapOffsets o.1.args } : Op), o.2)) }
      observe m' seed rounds gas
    | _, _, _ => "bad-op"
  | _ => "bad-op"

def handleExecEq (ws : List String) : String :=
  match ws with
  | sd :: rn :: gs :: rest =>
    match sd.toNat?, rn.toNat?, gs.toNat? with
    | some seed, some rounds, some gas =>
      let (a, b) := splitAtBar rest
      let oa := observe (parseModule a) seed rounds gas
      let ob := observe (parseModule b) seed rounds gas
      if oa = ob then "same" else firstDiff (oa.splitOn "; ") (ob.splitOn "; ") 0
    | _, _, _ => "bad-op"
  | _ => "bad-op"


/-! `elidetie <module A> || <module B>`: is every function body of B (walrus's output for A) the
    elision (`SL.elide`, the function the C01 theorem is about) of the body of A it was emitted
    from, up to the renumbering of entity operands and the normal form of block types? -/

def normBT (T : List Sig) : BT → String
  | .empty => ">"
  | .val t => ">" ++ t
  | .idx n => match T[n]? with
    | some sg => showSig sg
    | none => "?"

def normArg (T : List Sig) : Arg → String
  | .ref sp n => if sp = "l" then s!"l:{n}" else sp
  | .num n => s!"i:{n}"
  | .imm x => "i:" ++ x
  | .bt b => "b" ++ normBT T b

def normOp (T : List Sig) (o : Op) : String := joinWith "/" (o.name :: (wrapOffsets o.args).map (normArg T))

def handleElideTie (ws : List String) : String :=
  let (a, b) := splitAtBar ws
  let mA := parseModule a
  let mB := parseModule b
  let nif := importedCount mA "f"
  let c : InCode := ⟨mA.sigs, nif, mA.code.zip mA.funcs |>.map fun p => ⟨p.2, p.1.1, p.1.2⟩⟩
  match roundTripCode c with
  | none => "panic"
  | some oc =>
    if oc.order.length ≠ mB.code.length then "function-count" else
    let bad := oc.order.zipIdx.filterMap fun p =>
      match mA.code[p.1]?, mB.code[p.2]? with
      | some fa, some fb =>
        (match structureBody (fa.2.map (·.1)), structureBody (fb.2.map (·.1)) with
         | some sa, some sb =>
           if sa.elide.flat.map (normOp mA.sigs) = sb.flat.map (normOp mB.sigs) then none
           else some s!"function {p.1}->{p.2}"
         | _, _ => some s!"ill-nested {p.1}")
      | _, _ => some s!"missing {p.1}"
    if bad.isEmpty then "elide-ok" else "differs: " ++ joinWith "," bad


/-! `replace imp|exp <id> <seed> <rounds> <gas> <body ops …> ;; <module A> || <module B>`:
    the specified result of the edit on A and the real output B must be observed identically -/
def handleReplace (ws : List String) : String :=
  match ws with
  | kind :: ids :: sd :: rn :: gs :: rest =>
    match ids.toNat?, sd.toNat?, rn.toNat?, gs.toNat? with
    | some k, some seed, some rounds, some gas =>
      let bodyWs := rest.takeWhile (· ≠ ";;")
      let (a, b) := splitAtBar (rest.drop (bodyWs.length + 1))
      let mA := parseModule a
      let mB := parseModule b
      match mkEnv mA, structureBody (bodyWs.map parseOp) with
      | some E, some body =>
        let spec : Option String :=
          if kind = "imp" then
            (E.replaceImported k body).map fun E' => observeWith mA E'.fsigs (invoke E' gas) seed rounds
          else
            (replaceExported mA E k body).map fun p => observeWith p.1 p.2.fsigs (invoke p.2 gas) seed rounds
        (match spec with
         | none => "edit-rejected"
         | some os =>
           let ob := observe mB seed rounds gas
           if os = ob then "same" else firstDiff (os.splitOn "; ") (ob.splitOn "; ") 0)
      | _, _ => "ill-formed"
    | _, _, _, _ => "bad-op"
  | _ => "bad-op"

end Walrus.Driver
