import Walrus.Run
import Walrus.Replace
import Walrus.Rename
import Walrus.Driver.ModuleD
import Walrus.CodeMaps
import Walrus.Agree
import Walrus.BodiesOK

/-! `exec <seed> <rounds> <gas> <module text>` → the observation of the scripted run;
    `execeq <seed> <rounds> <gas> <module A> || <module B>` → `same` or where the observations part -/
namespace Walrus.Driver
open Walrus.Sem

def splitAtBar (ws : List String) : List String × List String :=
  let a := ws.takeWhile (· ≠ "||")
  (a, (ws.drop (a.length + 1)))

def firstDiff (a b : List String) (k : Nat) : String :=
  match a, b with
  | [], [] => "same"
  | x :: xs, y :: ys => if x = y then firstDiff xs ys (k + 1) else s!"differ at item {k}: A<{x}> B<{y}>"
  | x :: _, [] => s!"differ at item {k}: A<{x}> B<end>"
  | [], y :: _ => s!"differ at item {k}: A<end> B<{y}>"

def handleExec (ws : List String) : String :=
  match ws with
  | sd :: rn :: gs :: rest =>
    match sd.toNat?, rn.toNat?, gs.toNat? with
    | some seed, some rounds, some gas => observe (parseModule rest) seed rounds gas
    | _, _, _ => "bad-op"
  | _ => "bad-op"

/-- the same run on the module as walrus's IR can represent it: memarg offsets reduced modulo 2^32
    (used only to attribute a behaviour difference to the open finding D5) -/
def handleExecW (ws : List String) : String :=
  match ws with
  | sd :: rn :: gs :: rest =>
    match sd.toNat?, rn.toNat?, gs.toNat? with
    | some seed, some rounds, some gas =>
      let m := parseModule rest
      let m' := { m with code := m.code.map fun f => (f.1, f.2.map fun o => (({ o.1 with args := wrapOffsets o.1.args } : Op), o.2)) }
      observe m' seed rounds gas
    | _, _, _ => "bad-op"
  | _ => "bad-op"

def handleExecEq (ws : List String) : String :=
  match ws with
  | sd :: rn :: gs :: rest =>
    match sd.toNat?, rn.toNat?, gs.toNat? with
    | some seed, some rounds, some gas =>
      let (a, b) := splitAtBar rest
      let oa := observe (parseModule a) seed rounds gas
      let ob := observe (parseModule b) seed rounds gas
      if oa = ob then "same" else firstDiff (oa.splitOn "; ") (ob.splitOn "; ") 0
    | _, _, _ => "bad-op"
  | _ => "bad-op"


/-! `elidetie <module A> || <module B>`: is every function body of B (walrus's output for A) the
    elision (`SL.elide`, the function the C01 theorem is about) of the body of A it was emitted
    from, up to the renumbering of entity operands and the normal form of block types? -/

def normBT (T : List Sig) : BT → String
  | .empty => ">"
  | .val t => ">" ++ t
  | .idx n => match T[n]? with
    | some sg => showSig sg
    | none => "?"

def normArg (T : List Sig) : Arg → String
  | .ref sp n => if sp = "l" then s!"l:{n}" else sp
  | .num n => s!"i:{n}"
  | .imm x => "i:" ++ x
  | .bt b => "b" ++ normBT T b

def normOp (T : List Sig) (o : Op) : String := joinWith "/" (o.name :: (wrapOffsets o.args).map (normArg T))

def handleElideTie (ws : List String) : String :=
  let (a, b) := splitAtBar ws
  let mA := parseModule a
  let mB := parseModule b
  let nif := importedCount mA "f"
  let c : InCode := ⟨mA.sigs, nif, mA.code.zip mA.funcs |>.map fun p => ⟨p.2, p.1.1, p.1.2⟩⟩
  match roundTripCode c with
  | none => "panic"
  | some oc =>
    if oc.order.length ≠ mB.code.length then "function-count" else
    let bad := oc.order.zipIdx.filterMap fun p =>
      match mA.code[p.1]?, mB.code[p.2]? with
      | some fa, some fb =>
        (match structureBody (fa.2.map (·.1)), structureBody (fb.2.map (·.1)) with
         | some sa, some sb =>
           if sa.elide.flat.map (normOp mA.sigs) = sb.flat.map (normOp mB.sigs) then none
           else some s!"function {p.1}->{p.2}"
         | _, _ => some s!"ill-nested {p.1}")
      | _, _ => some s!"missing {p.1}"
    if bad.isEmpty then "elide-ok" else "differs: " ++ joinWith "," bad


/-! `replace imp|exp <id> <seed> <rounds> <gas> <body ops …> ;; <module A> || <module B>`:
    the specified result of the edit on A and the real output B must be observed identically -/
def handleReplace (ws : List String) : String :=
  match ws with
  | kind :: ids :: sd :: rn :: gs :: rest =>
    match ids.toNat?, sd.toNat?, rn.toNat?, gs.toNat? with
    | some k, some seed, some rounds, some gas =>
      let bodyWs0 := rest.takeWhile (· ≠ ";;")
      -- an optional first word `locals:<ty>,<ty>,…` declares the scratch locals of the body
      let extra : List String := match bodyWs0.head? with
        | some w => if w.startsWith "locals:" then (w.drop 7).toString.splitOn "," else []
        | none => []
      let bodyWs := if extra.isEmpty then bodyWs0 else bodyWs0.drop 1
      let (a, b) := splitAtBar (rest.drop (bodyWs0.length + 1))
      let mA := parseModule a
      let mB := parseModule b
      match mkEnv mA, structureBody (bodyWs.map parseOp) with
      | some E, some body =>
        let spec : Option String :=
          if kind = "imp" then
            (E.replaceImported k body extra).map fun E' => observeWith mA E'.resolve E'.usigs (invoke E' gas) seed rounds
          else
            (replaceExported mA E k body extra).map fun p => observeWith p.1 p.2.resolve p.2.usigs (invoke p.2 gas) seed rounds
        (match spec with
         | none => "edit-rejected"
         | some os =>
           let ob := observe mB seed rounds gas
           if os = ob then "same" else firstDiff (os.splitOn "; ") (ob.splitOn "; ") 0)
      | _, _ => "ill-formed"
    | _, _, _, _ => "bad-op"
  | _ => "bad-op"


/-! `rentie <seed> <rounds> <gas> <module A> || <module B>`: the hypotheses of the renumbering
    theorem (`EnvRen`, Proofs/Rename.lean) evaluated on the real pair: with the maps the model
    computes (function order, type order, local slots), B re-indexed to A's uids must be the
    renumbering of `elide A`; and B must be observed identically under both uid assignments. -/

mutual
def btsI : SI → List BT
  | .op _ => []
  | .block bt b => bt :: btsL b
  | .loop bt b => bt :: btsL b
  | .ite bt t e => bt :: (btsL t ++ btsL e)
def btsL : SL → List BT
  | .nil => []
  | .cons h t => btsI h ++ btsL t
end

def handleRenTie (ws : List String) : String :=
  match ws with
  | sd :: rn :: gs :: rest =>
    match sd.toNat?, rn.toNat?, gs.toNat? with
    | some seed, some rounds, some gas =>
      let (a, b) := splitAtBar rest
      let mA := parseModule a
      let mB := parseModule b
      let nif := importedCount mA "f"
      let c : InCode := ⟨mA.sigs, nif, mA.code.zip mA.funcs |>.map fun p => ⟨p.2, p.1.1, p.1.2⟩⟩
      match parseCode c, mkEnv mA, mkEnv mB with
      | some pfs, some EA0, some EB =>
        match emitCode c pfs with
        | none => "panic"
        | some oc =>
          let EA := EA0.elide
          let n := EA.ufuncs.length
          if EB.ufuncs.length ≠ n then "function-count" else
          -- the maps
          let fρ : Nat → Nat := fun f =>
            if f < nif then f else
              let j := oc.order.idxOf (f - nif)
              if j < oc.order.length then nif + j else n + f
          let yρ : Nat → Nat := fun y => match mA.sigs[y]? with
            | some sg => let k := mB.sigs.findIdx (· == sg); if k < mB.sigs.length then k else mB.sigs.length + y
            | none => mB.sigs.length + y
          let btρ : BT → BT := fun bt => match bt with
            | .idx k => (match mA.sigs[k]? with
              | some ([], []) => .empty
              | some ([], [t]) => .val t
              | some _ => .idx (yρ k)
              | none => .empty)
            | other => other
          let xρ : Nat → Nat → Nat := fun u x =>
            match pfs[u - nif]?, oc.funcs.find? (·.id = u) with
            | some pf, some ofn =>
              (match pf.localTys[x]? with
               | some (lid, _) => (assoc ofn.localMap lid).getD (1000000 + x)
               | none => 1000000 + x)
            | _, _ => x
          -- B re-indexed to A's uids
          let ftab' : List Nat := (List.range n).map fun j =>
            ((List.range n).find? fun u => fρ u == j).getD (n + j)
          let ufuncs' : List FuncInfo := (List.range n).map fun u =>
            match EB.ufuncs[fρ u]?, EA.ufuncs[u]? with
            | some fb, some fa =>
              let lt' := fb.lt.zipIdx.map fun p =>
                let x := ((List.range fa.lt.length).find? fun x => xρ u x == p.2).getD (1000000 + p.2)
                (x, p.1.2)
              { fb with lt := lt' }
            | _, _ => ⟨([], []), none, [], .nil⟩
          let E' : Env := ⟨EB.types, ftab', ufuncs'⟩
          -- EnvRen, field by field
          let cFt := (List.range (n + 2)).all fun f => E'.ftab[fρ f]? == EA.ftab[f]?
          let cTy := (List.range (mA.sigs.length + 2)).all fun y => E'.types[yρ y]? == EA.types[y]?
          let allBts := EA.ufuncs.flatMap fun fi => btsL fi.body
          let cBt := allBts.all fun bt => arity E'.types (btρ bt) == arity EA.types bt
          let bad := (List.range n).filterMap fun u =>
            match EA.ufuncs[u]?, E'.ufuncs[u]? with
            | some fa, some fb =>
              let ρ : Ren := ⟨fρ, yρ, xρ u, btρ⟩
              let np := fa.sig.1.length
              let wrap := fun (o : Op) => ({ o with args := wrapOffsets o.args } : Op)
              let okSig := fb.sig == fa.sig && fb.imp == fa.imp && fb.lt.take np == fa.lt.take np
              let okBody := (fa.body.ren ρ).flat.map wrap == fb.body.flat
              let okLoc := fa.body.flat.all fun o =>
                if isLocalOp o.name then
                  (match o.args with
                   | [.ref _ x] => fb.lt[xρ u x]? == fa.lt[x]?
                   | _ => true)
                else true
              -- the hypothesis of `round_trip_reads_as_ren_elide` for this function: the parse-time
              -- environment and the emit-time maps (checked to be the ones the model's emission
              -- used) take every surviving leaf and block type where ρ takes it.  Bodies with a
              -- memarg offset ≥ 2^32 (finding D5) are outside the theorem: ρ does not reduce offsets.
              let okAgree :=
                match pfs[u - nif]?, oc.funcs.find? (·.id = u) with
                | some pf, some ofn =>
                  let e := envOf c pf
                  let m := mapsOf c pfs (keepAll c pfs.length) ofn.localMap
                  let tie := (emitBodyMarks m (PSeqs.toArena pf.seqs) 0).map (·.1) == some ofn.ops
                  let plainOffsets := fa.body.flat.all fun o => wrap o == o
                  -- the hypothesis of `C01.written_body_is_ren_elide_by_the_emission_maps` for this
                  -- function: its operators have the decoder's operand shapes
                  let shaped := match mA.code[u - nif]? with
                    | some (_, ops) => flatShapedB ops
                    | none => false
                  tie && (!plainOffsets || (agreeL e m ρ fa.body && shaped))
                | _, _ => fa.imp.isSome
              if okSig && okBody && okLoc && okAgree then none
              else some s!"function {u}: sig={okSig} body={okBody} locals={okLoc} agree={okAgree}"
            | _, _ => some s!"function {u}: missing"
          -- the non-code sections: B's must be A's with the function indices renumbered
          let mA' := mapFM fρ mA
          let normE := fun (e : ElemM) =>
            ((match e.mode with
              | .active t off => (some (t.getD 0), some off)
              | .passive => (none, none)
              | .declared => (some 999999, none)), e.items)
          let cSec := mA'.exports == mB.exports && mA'.start == mB.start && mA'.globals == mB.globals &&
            mA'.elems.map normE == mB.elems.map normE &&
            mA'.datas.map (fun d => (d.mode, d.bytes)) == mB.datas.map (fun d => (d.mode, d.bytes))
          if !cFt then "ftab" else if !cTy then "types" else if !cBt then "block-types"
          else if !bad.isEmpty then joinWith "; " bad
          else if !cSec then "non-code-sections"
          else
            -- the output observed under both uid assignments
            let o1 := observe mB seed rounds gas
            let o2 := observeWith mB E'.resolve E'.usigs (invoke E' gas) seed rounds
            if o1 = o2 then "ren-ok" else "uid-assignment-observable: " ++ firstDiff (o1.splitOn "; ") (o2.splitOn "; ") 0
      | _, _, _ => "ill-formed"
    | _, _, _ => "bad-op"
  | _ => "bad-op"

end Walrus.Driver
