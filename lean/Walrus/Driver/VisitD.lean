import Walrus.Visit
import Walrus.Driver.Util

/-!
`visit in|mut <hook:0|1> <entry> <seq> ; <seq> ; …`
   seq   = `S<id> <ty: - | y<n>> <instr> <instr> …`
   instr = `Variant@<loc>[/field=kind:id,id…]*`      (kind ∈ f t g m y x d e s v o; no ids: `kind:`)
answer: events separated by spaces:
   `<s` start, `y<n>` sequence type, `i:Variant@loc`, `h:Variant`, `<kind><id>` operand, `>s` end;
   `!stuck` appended when the machine did not terminate with an empty stack within the fuel.
-/
namespace Walrus.Driver

def parseField (s : String) : FieldVal :=
  match s.splitOn "=" with
  | [n, kv] =>
    match kv.splitOn ":" with
    | [k, ids] => ⟨n, k, if ids = "" then [] else (ids.splitOn ",").filterMap String.toNat?⟩
    | _ => ⟨n, "?", []⟩
  | _ => ⟨s, "?", []⟩

def parseInstr (s : String) : IRInstr :=
  match s.splitOn "/" with
  | [] => ⟨"?", [], 0⟩
  | h :: fs =>
    match h.splitOn "@" with
    | [v, l] => ⟨v, fs.map parseField, l.toNat?.getD 0⟩
    | _ => ⟨h, fs.map parseField, 0⟩

def parseSeq (ws : List String) : Option (Nat × Option Nat × List (TInstr IRInstr)) :=
  match ws with
  | sid :: ty :: instrs =>
    let id := (dropStr sid 1).toNat?.getD 0
    let t := if ty = "-" then none else (dropStr ty 1).toNat?
    some (id, t, instrs.map (fun w => toT (parseInstr w)))
  | _ => none

def splitSeqs (ws : List String) : List (List String) :=
  let rec go (ws : List String) (cur : List String) (acc : List (List String)) : List (List String) :=
    match ws with
    | [] => (cur.reverse :: acc).reverse
    | ";" :: r => go r [] (cur.reverse :: acc)
    | w :: r => go r (w :: cur) acc
  go ws [] []

def showVEv : VEv → String
  | .startSeq s => s!"<{s}"
  | .seqType y => s!"y{y}"
  | .instr v l => s!"i:{v}@{l}"
  | .hook v => s!"h:{v}"
  | .operand k i => s!"{k}{i}"
  | .endSeq s => s!">{s}"
  | .mismatch => "!mismatch"

def arenaSize (ar : IRArena) : Nat := ar.foldl (fun n p => n + 2 + p.2.2.length) 0

def handleVisit (ws : List String) : String :=
  match ws with
  | mode :: hook :: entry :: rest =>
    let ar : IRArena := (splitSeqs rest).filterMap parseSeq
    let e := entry.toNat?.getD 0
    -- enough fuel for any tree over this arena in which every sequence occurs at most once
    let fuel := 2 * arenaSize ar + 4
    if mode = "in" then
      let r := visitInOrder (hook = "1") ar fuel e
      joinWith " " (r.2.map showVEv) ++ (if r.1.isEmpty then "" else " !stuck")
    else
      let r := visitPreOrderMut (hook = "1") ar fuel e
      joinWith " " (r.2.map showVEv) ++ (if r.1.isEmpty then "" else " !stuck")
  | _ => "bad-request"

end Walrus.Driver
