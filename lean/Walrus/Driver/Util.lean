/-! Small text helpers for the line protocol (no imports). -/
namespace Walrus.Driver

def words (s : String) : List String :=
  (s.splitOn " ").filter (fun w => w ≠ "")

def joinWith (sep : String) (l : List String) : String := sep.intercalate l

/-- drop the first `n` characters -/
def dropStr (s : String) (n : Nat) : String := String.ofList (s.toList.drop n)

def natOf? (s : String) : Option Nat := s.toNat?

end Walrus.Driver

namespace Walrus.Driver

def hexVal (c : Char) : Nat :=
  if '0' ≤ c ∧ c ≤ '9' then c.toNat - '0'.toNat
  else if 'a' ≤ c ∧ c ≤ 'f' then c.toNat - 'a'.toNat + 10
  else 0

def hexBytes (s : String) : ByteArray :=
  if s = "-" then ByteArray.empty else
  let rec go (cs : List Char) (acc : ByteArray) : ByteArray :=
    match cs with
    | a :: b :: r => go r (acc.push (UInt8.ofNat (hexVal a * 16 + hexVal b)))
    | _ => acc
  go s.toList ByteArray.empty

/-- hex-encoded UTF-8 -> String ("-" is the empty string) -/
def unhexStr (s : String) : String :=
  match String.fromUTF8? (hexBytes s) with
  | some r => r
  | none => "<bad-utf8:" ++ s ++ ">"

def hexDigit (n : Nat) : Char :=
  if n < 10 then Char.ofNat ('0'.toNat + n) else Char.ofNat ('a'.toNat + n - 10)

def hexStr (s : String) : String :=
  if s.isEmpty then "-" else
  String.ofList (s.toUTF8.toList.flatMap fun b => [hexDigit (b.toNat / 16), hexDigit (b.toNat % 16)])

end Walrus.Driver
