/-! Small text helpers for the line protocol (no imports). -/
namespace Walrus.Driver

def words (s : String) : List String :=
  (s.splitOn " ").filter (fun w => w ≠ "")

def joinWith (sep : String) (l : List String) : String := sep.intercalate l

/-- drop the first `n` characters -/
def dropStr (s : String) (n : Nat) : String := String.ofList (s.toList.drop n)

def natOf? (s : String) : Option Nat := s.toNat?

end Walrus.Driver
