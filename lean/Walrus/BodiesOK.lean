import Walrus.Proofs.ParseTree
import Walrus.CodeMaps
import Walrus.Gc
import Walrus.Agree

/-
The hypothesis of the emission-totality theorems (`BodiesWF`, Proofs/GcCodeEmit.lean) in decidable
form, so that the driver can evaluate it on every case: the flat operator list of each function is
read back into a source tree (`unflat`), which must flatten to the list it came from, be
well-formed and clean, and parse in tree terms.
-/
namespace Walrus

/-- an open construct while reading a flat body: its opening operator and what came before it -/
inductive UFrame
  | blk (o : Op) (loc : Nat) (before : List PI)
  | ifThen (o : Op) (loc : Nat) (before : List PI)
  | ifElse (o : Op) (loc : Nat) (thenB : List PI) (elseLoc : Nat) (before : List PI)

def plOf : List PI → PL
  | [] => .nil
  | h :: t => .cons h (plOf t)

/-- reads a flat body `… end` into its tree and the location of the final `end`; `cur` holds the
    instructions of the innermost open sequence, newest first -/
def unflatGo : List (Op × Nat) → List UFrame → List PI → Option (PL × Nat)
  | [], _, _ => none
  | (o, loc) :: r, st, cur =>
    if o.name = "Block" || o.name = "Loop" then unflatGo r (.blk o loc cur :: st) []
    else if o.name = "If" then unflatGo r (.ifThen o loc cur :: st) []
    else if o.name = "Else" then
      match st with
      | .ifThen o' loc' before :: st' => unflatGo r (.ifElse o' loc' cur.reverse loc before :: st') []
      | _ => none
    else if o.name = "End" then
      match st with
      | [] => if r.isEmpty then some (plOf cur.reverse, loc) else none
      | .blk o' loc' before :: st' => unflatGo r st' (.blk o' loc' (plOf cur.reverse) loc :: before)
      | .ifThen o' loc' before :: st' => unflatGo r st' (.if1 o' loc' (plOf cur.reverse) loc :: before)
      | .ifElse o' loc' tb elseLoc before :: st' =>
        unflatGo r st' (.if2 o' loc' (plOf tb) elseLoc (plOf cur.reverse) loc :: before)
    else unflatGo r st (.op o loc :: cur)

def unflat (ops : List (Op × Nat)) : Option (PL × Nat) := unflatGo ops [] []

def opCleanB (o : Op) : Bool :=
  (!(o.name = "Return" || o.name = "Unreachable") || o.args.isEmpty) &&
  (o.args.all (fun a => match a with | .ref "l" _ => false | _ => true) ||
    (o.name = "Br" || o.name = "BrIf" || o.name = "BrTable")) &&
  o.args.all (fun a => match a with | .ref sp _ => entSpaces.contains sp | _ => true)

mutual
def PI.wfB : PI → Bool
  | .op o _ => !isStructural o.name
  | .blk o _ b _ => (o.name = "Block" || o.name = "Loop") && b.wfB
  | .if1 o _ t _ => o.name = "If" && t.wfB
  | .if2 o _ t _ e _ => o.name = "If" && t.wfB && e.wfB
def PL.wfB : PL → Bool
  | .nil => true
  | .cons h t => h.wfB && t.wfB
end

mutual
def PI.cleanB : PI → Bool
  | .op o _ => opCleanB o
  | .blk _ _ b _ => b.cleanB
  | .if1 _ _ t _ => t.cleanB
  | .if2 _ _ t _ e _ => t.cleanB && e.cleanB
def PL.cleanB : PL → Bool
  | .nil => true
  | .cons h t => h.cleanB && t.cleanB
end

/-- one function body, against the environment it was parsed in -/
def bodyOK (e : PEnv) (ops : List (Op × Nat)) : Bool :=
  match unflat ops with
  | none => false
  | some (body, endLoc) =>
    decide (ops = body.flat ++ [(opEnd, endLoc)]) && body.wfB && body.cleanB && (expL e [0] 1 false body).isSome

/-- the shape of one function body alone: well-nested, immediates where the format has them -/
def shapeOK (ops : List (Op × Nat)) : Bool :=
  match unflat ops with
  | none => false
  | some (body, endLoc) => decide (ops = body.flat ++ [(opEnd, endLoc)]) && body.wfB && body.cleanB

/-- every function body of the module has that shape (a condition on the input alone) -/
def shapesOK (m : ModuleM) : Bool := m.code.all fun c => shapeOK c.2

/-- every function body of the module is well-nested, clean and parses in tree terms -/
def bodiesOK (m : ModuleM) (g : GcInfo) : Bool :=
  (List.range g.pfs.length).all fun k =>
    match m.code[k]?, g.pfs[k]? with
    | some (_, ops), some pf =>
      bodyOK { funcs := List.range (g.nif + (m.code.zip m.funcs).length), types := dedupIds m.sigs,
               locals := pf.localTys.map (·.1), sigs := m.sigs } ops
    | _, _ => true

/-! the shape of the other sections (`SectionsWF`, Proofs/GcEmit.lean), in decidable form -/

def cexprOK (c : CExprM) : Bool :=
  c.all fun op => op.args.all fun a => match a with | .ref sp _ => sp = "g" || sp = "f" | _ => true

def offsetOK (c : CExprM) : Bool :=
  c.all fun op => op.args.all fun a => match a with | .ref sp _ => sp = "g" | _ => true

def sectionsOK (m : ModuleM) : Bool :=
  m.exports.all (fun e => e.2.1 != "y") &&
  m.globals.all (fun gl => cexprOK gl.2) &&
  m.datas.all (fun d => match d.mode with | .active _ off => offsetOK off | _ => true) &&
  m.elems.all (fun e => match e.mode with | .active _ off => offsetOK off | _ => true) &&
  m.elems.all (fun e => match e.items with | .exprs _ es => es.all cexprOK | _ => true) &&
  m.imports.all (fun i => match i.2.2 with | .func t => decide (t < m.sigs.length) | _ => true)

/-- function references outside the code section are in range (what validation guarantees) -/
def cexprFuncsBelow (n : Nat) (c : CExprM) : Bool :=
  c.all fun op => op.args.all fun a => match a with | .ref "f" k => decide (k < n) | _ => true

def funcRefsOK (m : ModuleM) : Bool :=
  let n := importedCount m "f" + m.funcs.length
  m.exports.all (fun e => e.2.1 != "f" || decide (e.2.2 < n)) &&
  (match m.start with | some s => decide (s < n) | none => true) &&
  m.globals.all (fun gl => cexprFuncsBelow n gl.2) &&
  m.datas.all (fun d => match d.mode with | .active _ off => cexprFuncsBelow n off | _ => true) &&
  m.elems.all (fun e => match e.mode with | .active _ off => cexprFuncsBelow n off | _ => true) &&
  m.elems.all (fun e => match e.items with
    | .funcs fs => fs.all (fun f => decide (f < n))
    | .exprs _ es => es.all (cexprFuncsBelow n))

/-- every function body of a code slice, against the environment `parseCode` gave it -/
def bodiesOKc (m : ModuleM) (pfs : List ParsedFunc) : Bool :=
  (List.range pfs.length).all fun k =>
    match m.code[k]?, pfs[k]? with
    | some (_, ops), some pf =>
      bodyOK { funcs := List.range (importedCount m "f" + (m.code.zip m.funcs).length), types := dedupIds m.sigs,
               locals := pf.localTys.map (·.1), sigs := m.sigs } ops
    | _, _ => true

/-! the operand shape of operators (`OpShape`, Proofs/AgreeMaps.lean), in decidable form -/

/-- index spaces in which ids are indices on both sides of a round trip without a pass -/
def idSpace (sp : String) : Bool := sp = "t" || sp = "g" || sp = "m" || sp = "d" || sp = "e"

def argIs (sp : String) (a : Arg) : Bool := match a with | .ref s _ => s == sp | _ => false

def opShapedB (o : Op) : Bool :=
  if o.name = "Nop" then true
  else if o.name = "Br" || o.name = "BrIf" then (match o.args with | [a] => argIs "l" a | _ => false)
  else if o.name = "BrTable" then (!o.args.isEmpty) && o.args.all (argIs "l")
  else if o.name = "Return" || o.name = "Unreachable" then o.args.isEmpty
  else if o.name = "Call" || o.name = "RefFunc" || o.name = "ReturnCall" then
    (match o.args with | [a] => argIs "f" a | _ => false)
  else if o.name = "CallIndirect" || o.name = "ReturnCallIndirect" then
    (match o.args with | [a, b] => argIs "y" a && argIs "t" b | _ => false)
  else if o.name = "LocalGet" || o.name = "LocalSet" || o.name = "LocalTee" then
    (match o.args with | [a] => argIs "x" a | _ => false)
  else o.args.all (fun a => match a with | .ref sp _ => idSpace sp | _ => true) && (wrapOffsets o.args == o.args)

mutual
def PI.shapedB : PI → Bool
  | .op o _ => opShapedB o
  | .blk _ _ b _ => b.shapedB
  | .if1 _ _ t _ => t.shapedB
  | .if2 _ _ t _ e _ => t.shapedB && e.shapedB
def PL.shapedB : PL → Bool
  | .nil => true
  | .cons h t => h.shapedB && t.shapedB
end

-- the part of a source tree that survives: what follows an unconditional transfer in its sequence is
-- dropped (nothing is asked of dead code: it is never emitted)
mutual
def PI.live : PI → PI
  | .op o loc => .op o loc
  | .blk o loc b el => .blk o loc b.live el
  | .if1 o loc t el => .if1 o loc t.live el
  | .if2 o loc t l2 e el => .if2 o loc t.live l2 e.live el
def PL.live : PL → PL
  | .nil => .nil
  | .cons (.op o loc) t => if transfers o.name then .cons (.op o loc) .nil else .cons (.op o loc) t.live
  | .cons (.blk o loc b el) t => .cons (.blk o loc b.live el) t.live
  | .cons (.if1 o loc b el) t => .cons (.if1 o loc b.live el) t.live
  | .cons (.if2 o loc b l2 e el) t => .cons (.if2 o loc b.live l2 e.live el) t.live
end

/-- the live operators of the flat body of a function have the decoder's operand shapes -/
def flatShapedB (ops : List (Op × Nat)) : Bool :=
  match unflat ops with
  | some (body, _) => body.live.shapedB
  | none => false

end Walrus
