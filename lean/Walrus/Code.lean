import Walrus.Parse

/-
M4/M7 (code-related slice of the module round trip): type de-duplication and sorting, function
ids and the size-sorted emission order, local ids and their compaction, parse and emission of
every body.  Mirrors `parse_types`, `declare_local_functions`, `parse_local_functions`,
`ModuleTypes::emit`, `used_local_functions`, `emit_func_section`, `ModuleFunctions::emit`.
Tables, memories, globals and segments keep their indices here (no pass runs in between), which
is part of what the correspondence checks.
-/
namespace Walrus

abbrev Sig := List String × List String

structure InFunc where
  tyIdx : Nat
  locals : List (Nat × String)       -- declared (count, type) groups
  ops : List (Op × Nat)              -- operator, location
  deriving Repr

structure InCode where
  sigs : List Sig                    -- type section
  importedFuncs : Nat                -- number of imported functions
  funcs : List InFunc
  deriving Repr

def distinctSigs (sigs : List Sig) : List Sig :=
  sigs.foldl (fun seen s => if seen.contains s then seen else seen ++ [s]) []

/-- `ArenaSet::insert` over the type section: index ↦ id. Ids are handed out in first-occurrence
    order, so the id of a signature is its position among the distinct signatures. -/
def dedupIds (sigs : List Sig) : List Nat :=
  sigs.map fun s => (distinctSigs sigs).findIdx (· == s)

def lexLe : List Nat → List Nat → Bool
  | [], _ => true
  | _ :: _, [] => false
  | a :: as, b :: bs => if a < b then true else if a > b then false else lexLe as bs

/-- `impl Ord for Type`: params, then results, each compared as slices of `ValType` -/
def sigLe (a b : Sig) : Bool :=
  let pa := a.1.map tyRank; let pb := b.1.map tyRank
  if pa == pb then lexLe (a.2.map tyRank) (b.2.map tyRank) else lexLe pa pb

def expandLocals (groups : List (Nat × String)) : List String :=
  groups.flatMap fun g => List.replicate g.1 g.2

/-- size of a function as `LocalFunction::size` computes it -/
def funcSize (ar : BArena) (entry : Nat) : Nat :=
  let evs := (bodyEvents ar (arenaFuel ar) entry).2
  evs.foldl (fun n e => match e with
    | .start s _ => n + (match ar.get? s with | some (_, is) => is.length | none => 0)
    | _ => n) 0

structure OutFunc where
  tyIdx : Nat
  locals : List (Nat × String)
  ops : List Op
  id : Nat := 0                           -- FunctionId
  marks : List (Nat × Nat) := []          -- raw location map of the `Emit` visitor
  localMap : List (Nat × Nat) := []       -- LocalId ↦ emitted local index
  usedLocals : List Nat := []             -- `cx.locals[func]`: the locals the body mentions
  deriving Repr

structure OutCode where
  sigs : List Sig
  funcs : List OutFunc
  order : List Nat                  -- input ordinal (among local functions) of each emitted function
  deriving Repr

structure ParsedFunc where
  id : Nat
  ty : Nat                          -- TypeId
  args : List Nat                   -- LocalIds of the parameters
  localTys : List (Nat × String)    -- LocalId ↦ type, for every local of the function
  seqs : List PSeq
  deriving Repr

/-- parse of the code-related sections -/
def parseCode (c : InCode) : Option (List ParsedFunc) :=
  let tids := dedupIds c.sigs
  let nTypes := (distinctSigs c.sigs).length
  let nFuncs := c.importedFuncs + c.funcs.length
  let funcIds := List.range nFuncs
  -- entry types are added while the local ids are handed out, one function after the other
  let rec go (fs : List InFunc) (k : Nat) (nextLocal : Nat) (entrySeen : List (List String)) (acc : List ParsedFunc) :
      Option (List ParsedFunc) :=
    match fs with
    | [] => some acc.reverse
    | f :: r =>
      match c.sigs[f.tyIdx]?, tids[f.tyIdx]? with
      | some (ps, rs), some tid =>
        let tys := ps ++ expandLocals f.locals
        let lids := List.range' nextLocal tys.length
        let ei := entrySeen.findIdx (· == rs)
        let (entrySeen', entryId) :=
          if ei < entrySeen.length then (entrySeen, nTypes + ei) else (entrySeen ++ [rs], nTypes + entrySeen.length)
        let env : PEnv := { funcs := funcIds, types := tids, locals := lids, sigs := c.sigs }
        match buildBody env entryId f.ops with
        | none => none
        | some seqs =>
          go r (k + 1) (nextLocal + tys.length) entrySeen'
            (⟨c.importedFuncs + k, tid, lids.take ps.length, lids.zip tys, seqs⟩ :: acc)
      | _, _ => none
  go c.funcs 0 0 [] []

def insertBy {α : Type} (le : α → α → Bool) (x : α) : List α → List α
  | [] => [x]
  | y :: r => if le x y then x :: y :: r else y :: insertBy le x r

/-- stable insertion sort (`sort_by_key` is stable) -/
def sortBy {α : Type} (le : α → α → Bool) (l : List α) : List α := l.foldr (insertBy le) []

/-- what survives a pass, and where the other index spaces went -/
structure Keep where
  funcs : List Nat                      -- FunctionIds kept (imports and locals)
  types : List Nat                      -- TypeIds kept
  other : IdMaps                        -- maps (or identity) for tables, globals, memories, data, elements

def keepAll (c : InCode) (nLocal : Nat) : Keep :=
  { funcs := List.range (c.importedFuncs + nLocal), types := List.range (distinctSigs c.sigs).length,
    other := { identity := ["t", "g", "m", "d", "e"] } }

/-- emission of the type, function and code sections -/
def emitCodeWith (c : InCode) (pfs : List ParsedFunc) (k : Keep) : Option OutCode :=
  let dsigs := distinctSigs c.sigs
  -- types: live, non-entry, sorted by (params, results)
  let idSigs : List (Nat × Sig) := (dsigs.zipIdx.map (fun p => (p.2, p.1))).filter (fun p => k.types.contains p.1)
  let sortedTy : List (Nat × Sig) := sortBy (fun a b => sigLe a.2 b.2) idSigs
  let tyMap := sortedTy.zipIdx.map (fun p => (p.1.1, p.2))
  -- functions: imports keep their order; local functions by (size descending, id)
  let keptImports := (List.range c.importedFuncs).filter k.funcs.contains
  let sized := (pfs.filter (fun f => k.funcs.contains f.id)).map fun f => (f, funcSize (PSeqs.toArena f.seqs) 0)
  let sorted := sortBy (fun a b => a.2 > b.2 || (a.2 == b.2 && a.1.id ≤ b.1.id)) sized
  let funcMap := keptImports.zipIdx.map (fun p => (p.1, p.2)) ++
    sorted.zipIdx.map (fun p => (p.1.1.id, keptImports.length + p.2))
  let outs := sorted.mapM fun p =>
    let f := p.1
    let ar := PSeqs.toArena f.seqs
    let evs := bodyEvents ar (arenaFuel ar) 0
    let used := usedLocals evs.2
    let tyOf := fun l => match f.localTys.find? (·.1 = l) with | some q => q.2 | none => "?"
    let (decls, lmap) := emitLocals f.args tyOf used
    let maps : IdMaps := { k.other with funcs := funcMap, types := tyMap, locals := lmap }
    match emitBodyMarks maps ar 0, assoc tyMap f.ty with
    | some (ops, marks), some t => some (⟨t, decls, ops, f.id, marks, lmap, used⟩ : OutFunc)
    | _, _ => none
  outs.map fun fs => ⟨sortedTy.map (·.2), fs, sorted.map (fun p => p.1.id - c.importedFuncs)⟩

def emitCode (c : InCode) (pfs : List ParsedFunc) : Option OutCode := emitCodeWith c pfs (keepAll c pfs.length)

def roundTripCode (c : InCode) : Option OutCode := (parseCode c).bind (emitCode c)

end Walrus
