import Walrus.Parse
import Walrus.Body
import Walrus.Rename

/-
What one surviving operator of a source body becomes in the output (`outLeaf`: parse-time map, then
emit-time map; branches keep their depth), the block type written for a construct, and the decidable
condition `agreeL` that a renumbering `ρ` of the executable semantics takes every leaf and block
type of a tree where those maps take it.  `Proofs/RoundTripBody.lean` proves that `emit ∘ parse`
writes `outL` (built from `outLeaf`); `Proofs/Bridge.lean` proves that, under `agreeL`, the
interpreter reads that output as `ren ρ (elide t)`.
-/
namespace Walrus
open Sem (SI SL Ren structuralName)

def transfers (n : String) : Bool := n = "Br" || n = "BrTable" || n = "Return" || n = "Unreachable"

/-- operands of a surviving plain operator: parse-time map, then emit-time map -/
def outArgs (e : PEnv) (m : IdMaps) (args : List Arg) : Option (List Arg) :=
  (pMapArgs e (wrapOffsets args)).bind (mapArgs m)

/-- the block type written for a construct -/
def outBt (e : PEnv) (m : IdMaps) (o : Op) : Option Arg := ((btOf o).bind (seqTyOfBt e)).bind (blockTy m)

/-- what one non-structural operator contributes when its frame is reachable -/
def outLeaf (e : PEnv) (m : IdMaps) (o : Op) (loc : Nat) : Option (List (Nat × Op)) :=
  if o.name = "Br" then
    match labelsOf o with
    | [n] => some [(loc, ⟨"Br", [.ref "l" n]⟩)]
    | _ => none
  else if o.name = "BrIf" then
    match labelsOf o with
    | [n] => some [(loc, ⟨"BrIf", [.ref "l" n]⟩)]
    | _ => none
  else if o.name = "BrTable" then
    match (labelsOf o).reverse with
    | d :: ts => some [(loc, ⟨"BrTable", ts.reverse.map (Arg.ref "l") ++ [.ref "l" d]⟩)]
    | [] => none
  else if o.name = "Return" || o.name = "Unreachable" then (mapArgs m o.args).map fun a => [(loc, ⟨o.name, a⟩)]
  else if o.name = "Nop" then some []
  else (outArgs e m o.args).map fun a => [(loc, ⟨o.name, a⟩)]

/-- the block type written for a construct whose block type is `bt` -/
def outBtOf (e : PEnv) (m : IdMaps) (bt : BT) : Option Arg := (seqTyOfBt e bt).bind (blockTy m)

/-- the operators one surviving leaf contributes, without their locations -/
def outLeafOps (e : PEnv) (m : IdMaps) (o : Op) : Option (List Op) := (outLeaf e m o 0).map (·.map (·.2))

-- the parse-time and emit-time maps take every leaf and block type of the tree where `ρ` takes it
mutual
def agreeI (e : PEnv) (m : IdMaps) (ρ : Ren) : SI → Bool
  | .op o => !structuralName o.name && (outLeafOps e m o == some [ρ.op o])
  | .block bt b => (outBtOf e m bt == some (.bt (ρ.bt bt))) && agreeL e m ρ b
  | .loop bt b => (outBtOf e m bt == some (.bt (ρ.bt bt))) && agreeL e m ρ b
  | .ite bt t el => (outBtOf e m bt == some (.bt (ρ.bt bt))) && agreeL e m ρ t && agreeL e m ρ el
def agreeL (e : PEnv) (m : IdMaps) (ρ : Ren) : SL → Bool
  | .nil => true
  | .cons h t => agreeI e m ρ h && agreeL e m ρ t
end

end Walrus
