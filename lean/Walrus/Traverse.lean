/-
M6/M12: the two IR traversals of `src/ir/traversals.rs` over an arena of instruction sequences,
as explicit work-stack machines (exactly the loops in the source), and the recursive reference
walk over the tree view. Generic in what is reported per instruction (`evI`) and per sequence
start (`evS`); `Walrus/Visit.lean` instantiates them from the generated `Instr` table.
-/
namespace Walrus

/-- an instruction as far as the traversals care: which nested sequences it owns
    (`Block`/`Loop`: one, `IfElse`: consequent and alternative), everything else is payload -/
structure TInstr (ι : Type) where
  payload : ι
  kids : List Nat          -- [] | [s] | [c, a]
  deriving Repr

/-- arena of sequences: id ↦ (sequence payload, instructions) -/
abbrev TArena (σ ι : Type) := List (Nat × σ × List (TInstr ι))

def TArena.get? {σ ι : Type} (ar : TArena σ ι) (s : Nat) : Option (σ × List (TInstr ι)) :=
  match ar with
  | [] => none
  | (k, v) :: r => if k = s then some v else TArena.get? r s

section
variable {σ ι ε : Type}
variable (evS : Nat → σ → List ε) (evI : ι → List ε) (evE : Nat → σ → List ε)

/-- one iteration of `dfs_in_order`'s inner `for` (or the end of a sequence). State: the stack of
    `(sequence, resume index)` (top = head) and the events so far. A missing sequence id stops
    the machine (the real code panics in `func.block`). -/
def inOrderStep (ar : TArena σ ι) : List (Nat × Nat) × List ε → List (Nat × Nat) × List ε
  | ([], out) => ([], out)
  | ((s, k) :: rest, out) =>
    match ar.get? s with
    | none => ([], out)
    | some (sp, instrs) =>
      let out := if k = 0 then out ++ evS s sp else out
      match instrs[k]? with
      | none => (rest, out ++ evE s sp)
      | some i =>
        let out := out ++ evI i.payload
        match i.kids with
        | [c] => ((c, 0) :: (s, k+1) :: rest, out)
        | [c, a] => ((c, 0) :: (a, 0) :: (s, k+1) :: rest, out)
        | _ => ((s, k+1) :: rest, out)

def inOrderRun (ar : TArena σ ι) : Nat → List (Nat × Nat) × List ε → List (Nat × Nat) × List ε
  | 0, st => st
  | n+1, st => inOrderRun ar n (inOrderStep evS evI evE ar st)

/-- `dfs_in_order(visitor, func, start)` with `fuel` loop iterations -/
def dfsInOrder (ar : TArena σ ι) (fuel : Nat) (start : Nat) : List (Nat × Nat) × List ε :=
  inOrderRun evS evI evE ar fuel ([(start, 0)], [])

/-- what `dfs_pre_order_mut` pushes for one instruction: `Block`/`Loop` push their sequence,
    `IfElse` pushes the alternative, then the consequent -/
def kidPush {ι : Type} (i : TInstr ι) : List Nat := match i.kids with | [c] => [c] | [c, a] => [a, c] | _ => []

/-- `dfs_pre_order_mut`: one pop of the stack = one whole sequence; children are pushed while the
    instructions are scanned (`IfElse` pushes the alternative first), the last pushed is popped
    first. -/
def preOrderStep (ar : TArena σ ι) : List Nat × List ε → List Nat × List ε
  | ([], out) => ([], out)
  | (s :: rest, out) =>
    match ar.get? s with
    | none => ([], out)
    | some (sp, instrs) =>
      let out := out ++ evS s sp ++ instrs.flatMap (fun i => evI i.payload) ++ evE s sp
      let pushes := instrs.flatMap kidPush
      (pushes.reverse ++ rest, out)

def preOrderRun (ar : TArena σ ι) : Nat → List Nat × List ε → List Nat × List ε
  | 0, st => st
  | n+1, st => preOrderRun ar n (preOrderStep evS evI evE ar st)

def dfsPreOrderMut (ar : TArena σ ι) (fuel : Nat) (start : Nat) : List Nat × List ε :=
  preOrderRun evS evI evE ar fuel ([start], [])

end

/-! ## the tree view and the recursive reference walks -/

mutual
inductive TI (σ ι : Type) where
  | leaf (p : ι)
  | one (p : ι) (s : Nat) (sp : σ) (b : TL σ ι)
  | two (p : ι) (c : Nat) (cp : σ) (tc : TL σ ι) (a : Nat) (ap : σ) (ta : TL σ ι)
inductive TL (σ ι : Type) where
  | nil
  | cons (h : TI σ ι) (t : TL σ ι)
end

section
variable {σ ι ε : Type}

def TI.toInstr : TI σ ι → TInstr ι
  | .leaf p => ⟨p, []⟩
  | .one p s _ _ => ⟨p, [s]⟩
  | .two p c _ _ a _ _ => ⟨p, [c, a]⟩

def TL.toList : TL σ ι → List (TInstr ι)
  | .nil => []
  | .cons h t => h.toInstr :: t.toList

variable (evS : Nat → σ → List ε) (evI : ι → List ε) (evE : Nat → σ → List ε)

mutual
/-- events of the sequences nested under one instruction, in program order -/
def walkKids : TI σ ι → List ε
  | .leaf _ => []
  | .one _ s sp b => evS s sp ++ walkL b ++ evE s sp
  | .two _ c cp tc a ap ta => (evS c cp ++ walkL tc ++ evE c cp) ++ (evS a ap ++ walkL ta ++ evE a ap)
/-- in-order walk of an instruction list -/
def walkL : TL σ ι → List ε
  | .nil => []
  | .cons h t => evI h.toInstr.payload ++ walkKids h ++ walkL t
end

/-- the whole function body from its entry sequence -/
def walkSeq (s : Nat) (sp : σ) (t : TL σ ι) : List ε := evS s sp ++ walkL evS evI evE t ++ evE s sp

/-- what `dfs_pre_order_mut` reports while it scans one sequence -/
def ownEvents (s : Nat) (sp : σ) (t : TL σ ι) : List ε :=
  evS s sp ++ (t.toList.flatMap (fun i => evI i.payload)) ++ evE s sp

mutual
/-- reference for the pre-order traversal: the sequences nested under one instruction -/
def preKids : TI σ ι → List ε
  | .leaf _ => []
  | .one _ s sp b => ownEvents evS evI evE s sp b ++ preRev b
  | .two _ c cp tc a ap ta =>
      (ownEvents evS evI evE c cp tc ++ preRev tc) ++ (ownEvents evS evI evE a ap ta ++ preRev ta)
/-- nested sequences of an instruction list: those of the last instruction first -/
def preRev : TL σ ι → List ε
  | .nil => []
  | .cons h t => preRev t ++ preKids h
end

/-- a sequence's own instructions first, then everything nested in it -/
def preSeq (s : Nat) (sp : σ) (t : TL σ ι) : List ε :=
  ownEvents evS evI evE s sp t ++ preRev evS evI evE t

end

-- `ar` has the tree view `t`: every nested sequence id resolves to the stated payload and list
mutual
inductive ViewI {σ ι : Type} (ar : TArena σ ι) : TI σ ι → Prop where
  | leaf p : ViewI ar (.leaf p)
  | one p s sp b : ar.get? s = some (sp, b.toList) → ViewL ar b → ViewI ar (.one p s sp b)
  | two p c cp tc a ap ta : ar.get? c = some (cp, tc.toList) → ar.get? a = some (ap, ta.toList) →
      ViewL ar tc → ViewL ar ta → ViewI ar (.two p c cp tc a ap ta)
inductive ViewL {σ ι : Type} (ar : TArena σ ι) : TL σ ι → Prop where
  | nil : ViewL ar .nil
  | cons h t : ViewI ar h → ViewL ar t → ViewL ar (.cons h t)
end

end Walrus
