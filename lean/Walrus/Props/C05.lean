import Walrus.Gen.ParseArms
import Walrus.Code

/-!
# C05 — parsing is a total, sound and complete validation gate

What can be proved without a model of wasmparser: (a) the *gate order* in `Module::parse` — in
every section arm the reference validator is consulted on that section before walrus touches it,
and arms for unsupported constructs stop with an error (obligations on the table the translator
regenerates from the source on every run); (b) the *feature arithmetic* — restricting to stable
features removes exactly multi-memory, memory64 and threads. Whether the bytes decode and
validate is wasmparser's judgement; accept/reject agreement with a standalone validator, absence of
panics, stack overflows and hangs on arbitrary bytes are decided by the differential oracle
(sampling), which is why this property is claimed as *partial*.
-/
namespace Walrus
namespace C05
open Gen

def isRet (e : String) : Bool := ("ret.".toList).isPrefixOf e.toList
def isValidator (e : String) : Bool := ("validator.".toList).isPrefixOf e.toList

/-- an arm is gated when, if it touches the module under construction at all, its first event is a
    call on the validator -/
def gated (a : ParseArm) : Bool :=
  !(a.events.any isRet) || (match a.events with | e :: _ => isValidator e | [] => false)

/-- custom sections are not validated by wasmparser (they cannot make a module invalid) -/
def exempt (a : ParseArm) : Bool := a.payloads == ["CustomSection"]

def unsupportedPayloads : List String :=
  ["ModuleSection", "InstanceSection", "CoreTypeSection", "ComponentSection", "ComponentInstanceSection",
   "ComponentAliasSection", "ComponentTypeSection", "ComponentCanonicalSection", "ComponentStartSection",
   "ComponentImportSection", "ComponentExportSection", "TagSection"]

/-- **gate order**: every arm of `match payload?` validates before it parses -/
theorem every_section_is_validated_before_it_is_parsed :
    parseMatchFound = true ∧ (parseArms.filter (fun a => !exempt a)).all gated = true := by
  decide

/-- **unsupported constructs are rejected**, never half-parsed -/
theorem unsupported_sections_bail :
    (parseArms.filter (fun a => a.payloads.any unsupportedPayloads.contains)).all
      (fun a => a.events.contains "bail!" && !(a.events.any isRet)) = true ∧
    unsupportedPayloads.all (fun p => parseArms.any (fun a => a.payloads.contains p)) = true := by
  decide

/-- **feature arithmetic**: the stable feature set is the default one minus exactly
    multi-memory, memory64 and threads; no other switch influences the feature set -/
theorem stable_features_remove_exactly_three :
    featuresUnlessStable = ["MULTI_MEMORY", "MEMORY64", "THREADS"] ∧ featuresOtherCondition = [] ∧
    featuresAlways = ["FLOATS", "MUTABLE_GLOBAL", "SATURATING_FLOAT_TO_INT", "SIGN_EXTENSION", "MULTI_VALUE",
                      "REFERENCE_TYPES", "BULK_MEMORY", "SIMD", "RELAXED_SIMD", "TAIL_CALL"] := by
  decide

end C05
end Walrus
