import Walrus.Proofs.Traverse
import Walrus.Proofs.Steps
import Walrus.Visit

/-!
# C16 — IR traversals visit everything exactly once, in order, without recursion

Model: `Walrus/Traverse.lean` (the two work-stack loops of `src/ir/traversals.rs`),
`Walrus/Visit.lean` (what the generated `Visit`/`VisitMut` impls report per instruction, derived
from `Gen/InstrSpec.lean`, which the translator regenerates from `enum Instr` and the macro crate
on every run).

Proved for every function whose sequence graph unfolds to a finite tree (`ViewL`), of any size and
nesting depth: the immutable traversal is the recursive program-order walk (properly nested
start/end events); the mutable traversal scans every sequence of the tree exactly once; each
visited instruction reports each of its entity operands exactly once.  The "no recursion" clause
is structural in the model (both loops are step machines over an explicit stack); the real call
stack is observed by the oracle (depth 10^5 on a 256 KiB stack), not proved.
-/
namespace Walrus
namespace C16
open Gen

/-- **Immutable traversal = program-order walk**, with any recording visitor. -/
theorem in_order_is_program_order (logsHook : Bool) (ar : IRArena) (entry : Nat) (ty : Option Nat)
    (t : TL (Option Nat) IRInstr) (he : ar.get? entry = some (ty, t.toList)) (hv : ViewL ar t) :
    ∃ n, ∀ fuel, n ≤ fuel →
      visitInOrder logsHook ar fuel entry =
        ([], walkSeq seqStart (instrEvents instrSpec logsHook (defaultVisits hookDefaultVisitsOperands)) seqEnd entry ty t) :=
  dfsInOrder_eq_walk _ _ _ ar entry ty t he hv

/-- **the in-order traversal is a loop of exactly `costL t + 1` iterations** — one per instruction
    and one per sequence of the tree, whatever its depth: after that many iterations of
    `dfs_in_order`'s work-stack loop the stack is empty and the log is the program-order walk.
    (The model's stack holds one entry per *open* sequence; the Rust call stack does not grow with
    nesting because the loop is a loop — the harness confirms that at depth 10^5 on a 256 KiB
    stack.) -/
theorem in_order_takes_one_iteration_per_instruction_and_sequence (logsHook : Bool) (ar : IRArena) (entry : Nat)
    (ty : Option Nat) (t : TL (Option Nat) IRInstr) (he : ar.get? entry = some (ty, t.toList)) (hv : ViewL ar t)
    (fuel : Nat) (hf : costL t + 1 ≤ fuel) :
    visitInOrder logsHook ar fuel entry =
      ([], walkSeq seqStart (instrEvents instrSpec logsHook (defaultVisits hookDefaultVisitsOperands)) seqEnd entry ty t) :=
  dfsInOrder_eq_walk_steps _ _ _ ar entry ty t he hv fuel hf

/-- **Mutable traversal**: own instructions of a sequence first, then every nested sequence, each
    exactly once. -/
theorem pre_order_visits_each_sequence_once (logsHook : Bool) (ar : IRArena) (entry : Nat) (ty : Option Nat)
    (t : TL (Option Nat) IRInstr) (he : ar.get? entry = some (ty, t.toList)) (hv : ViewL ar t) :
    ∃ n, ∀ fuel, n ≤ fuel →
      visitPreOrderMut logsHook ar fuel entry =
        ([], preSeq seqStart (instrEvents instrSpec logsHook (defaultVisits mutHookDefaultVisitsOperands)) seqEnd entry ty t) :=
  dfsPreOrderMut_eq _ _ _ ar entry ty t he hv

/-! ### every entity operand exactly once -/

def isEntityEv : VEv → Bool
  | .operand k _ => isEntityKind k
  | _ => false

/-- the entity operands an instruction has, read off the instruction itself -/
def entityOperands (vals : List FieldVal) : List VEv :=
  vals.flatMap fun v => if isEntityKind v.kind then v.ids.map (VEv.operand v.kind) else []

/-- the instruction has the fields the table lists for its variant, with the kinds their types imply -/
def Conforms : List FieldSpec → List FieldVal → Prop
  | [], [] => True
  | f :: fs, v :: vs => f.name = v.name ∧ kindOfType f.ty = v.kind ∧ Conforms fs vs
  | _, _ => False

def noEntitySkipped (fs : List FieldSpec) : Bool :=
  fs.all fun f => !(isEntityKind (kindOfType f.ty) && f.skipVisit)

theorem filter_map_operand (k : String) (ids : List Nat) :
    (ids.map (VEv.operand k)).filter isEntityEv = if isEntityKind k then ids.map (VEv.operand k) else [] := by
  induction ids with
  | nil => simp
  | cons i r ih =>
    simp only [List.map_cons, List.filter_cons, isEntityEv, ih]
    cases isEntityKind k <;> simp

/-- for a conforming instruction whose variant skips no entity field, the operand callbacks
    restricted to entities are exactly the instruction's entity operands, each once, in order -/
theorem field_events_entities (fs : List FieldSpec) (vals : List FieldVal)
    (hc : Conforms fs vals) (hs : noEntitySkipped fs = true) :
    (fieldEvents fs vals).filter isEntityEv = entityOperands vals := by
  induction fs generalizing vals with
  | nil =>
    cases vals with
    | nil => rfl
    | cons v vs => cases hc
  | cons f fs ih =>
    cases vals with
    | nil => cases hc
    | cons v vs =>
      obtain ⟨hn, hk, hr⟩ := hc
      simp only [noEntitySkipped, List.all_cons, Bool.and_eq_true] at hs
      have ih' := ih vs hr hs.2
      simp only [fieldEvents, hn, if_true, List.filter_append, ih', entityOperands, List.flatMap_cons]
      congr 1
      rw [← hk]
      cases hsk : f.skipVisit
      · simp [filter_map_operand]
      · have := hs.1
        simp only [hsk, Bool.and_true, Bool.not_eq_true'] at this
        simp [this]

/-- obligation on the regenerated table: no variant hides an entity operand from visitors -/
theorem table_skips_no_entity : instrSpec.all (fun v => noEntitySkipped v.fields) = true := by decide

/-- obligations on the regenerated visitor plumbing: `Instr::visit[_mut]` = hook, then operands;
    the default hooks themselves do not visit the operands again -/
theorem plumbing_visits_operands_once :
    instrEnumFound = true ∧ instrVisitIsHookThenOperands = true ∧ instrVisitMutIsHookThenOperands = true ∧
    hookDefaultVisitsOperands = some false ∧ mutHookDefaultVisitsOperands = some false := by decide

/-- **Each visited instruction reports each entity operand exactly once**, for visitors with
    default and with overridden hooks, in both traversals. -/
theorem operands_exactly_once (logsHook : Bool) (i : IRInstr) (vs : VariantSpec)
    (hv : findVariant instrSpec i.variant = some vs) (hc : Conforms vs.fields i.fields) :
    (instrEvents instrSpec logsHook (defaultVisits hookDefaultVisitsOperands) i).filter isEntityEv = entityOperands i.fields ∧
    (instrEvents instrSpec logsHook (defaultVisits mutHookDefaultVisitsOperands) i).filter isEntityEv = entityOperands i.fields := by
  have hskip : noEntitySkipped vs.fields = true := by
    have := table_skips_no_entity
    rw [List.all_eq_true] at this
    exact this vs (List.mem_of_find?_eq_some hv)
  have hops : (operandEvents instrSpec i).filter isEntityEv = entityOperands i.fields := by
    simp only [operandEvents, hv]
    exact field_events_entities vs.fields i.fields hc hskip
  have h1 : defaultVisits hookDefaultVisitsOperands = false := by
    rw [plumbing_visits_operands_once.2.2.2.1]; rfl
  have h2 : defaultVisits mutHookDefaultVisitsOperands = false := by
    rw [plumbing_visits_operands_once.2.2.2.2]; rfl
  rw [h1, h2]
  cases logsHook <;> simp [instrEvents, List.filter_append, hops, isEntityEv]

/-- non-vacuity: a concrete conforming instruction (`call_indirect` with its two entity operands)
    and a three-sequence tree -/
example : ∃ vs, findVariant instrSpec "CallIndirect" = some vs ∧
    Conforms vs.fields [⟨"ty", "y", [4]⟩, ⟨"table", "t", [0]⟩] := by
  refine ⟨⟨"CallIndirect", false, [⟨"ty", "TypeId", false, false⟩, ⟨"table", "TableId", false, false⟩]⟩, by decide, ?_⟩
  exact ⟨rfl, by decide, rfl, by decide, trivial⟩

example : (visitInOrder true
    [(0, none, [toT ⟨"Block", [⟨"seq", "s", [1]⟩], 7⟩, toT ⟨"Drop", [], 8⟩]), (1, some 3, [toT ⟨"Call", [⟨"func", "f", [2]⟩], 9⟩])] 20 0).2
  = [.startSeq 0, .instr "Block" 7, .hook "Block", .operand "s" 1, .startSeq 1, .seqType 3, .instr "Call" 9, .hook "Call",
     .operand "f" 2, .endSeq 1, .instr "Drop" 8, .hook "Drop", .endSeq 0] := by decide

end C16
end Walrus
