import Walrus.Replace

/-!
# C18 — function replacement edits rewire exactly one thing

The edits are specified on the interpreter's view of the module (`Walrus/Replace.lean`); the
theorems say what the specification changes and what it leaves alone.  The tie to the code is
behavioural and checked on every case: the harness performs the real edit through the public API
with a generated body, emits, decodes the output independently, and the Lean interpreter must
observe the *specified* module and the *real output* identically (results, traps, host trace,
exported state); the output must validate, the import list must be the input's minus exactly the
replaced import, the export list must keep names, kinds and order.
-/
namespace Walrus
namespace C18
open Walrus.Sem

/-- replacing an imported function: the index keeps naming the same identifier (uid), which now
    runs the new body, with the old signature and parameters … -/
theorem imported_keeps_identifier_and_signature (E E' : Env) (k : Nat) (body : SL) (extra : List String)
    (h : E.replaceImported k body extra = some E') :
    ∃ u fi, E.ftab[k]? = some u ∧ E.ufuncs[u]? = some fi ∧ fi.imp.isSome = true ∧ E'.ftab = E.ftab ∧
      E'.ufuncs[u]? = some ⟨fi.sig, none, fi.lt.take fi.sig.1.length ++ scratchLt extra, body⟩ := by
  unfold Env.replaceImported replLt at h
  cases hk : E.ftab[k]? with
  | none => simp [hk] at h
  | some u =>
    cases hu : E.ufuncs[u]? with
    | none => simp [hk, hu] at h
    | some fi =>
      simp only [hk, hu, Option.bind_some, Option.map_some] at h
      split at h
      · rename_i hi
        injection h with h; subst h
        have hlt : u < E.ufuncs.length := (List.getElem?_eq_some_iff.1 hu).1
        exact ⟨u, fi, rfl, hu, hi, rfl, by simp [hlt]⟩
      · cases h

/-- … every other function, the signature of every function, the index table and the type section
    are untouched: callers, element segments, exports and the start section (which all go through
    the index table) now reach the new body and nothing else changed -/
theorem imported_changes_nothing_else (E E' : Env) (k : Nat) (body : SL) (extra : List String)
    (h : E.replaceImported k body extra = some E') :
    E'.types = E.types ∧ E'.ftab = E.ftab ∧ E'.usigs = E.usigs ∧ E'.ufuncs.length = E.ufuncs.length ∧
    ∀ u, E.ftab[k]? ≠ some u → E'.ufuncs[u]? = E.ufuncs[u]? := by
  unfold Env.replaceImported at h
  cases hk : E.ftab[k]? with
  | none => simp [hk] at h
  | some u =>
    cases hu : E.ufuncs[u]? with
    | none => simp [hk, hu] at h
    | some fi =>
      simp only [hk, hu, Option.bind_some, Option.map_some] at h
      split at h
      · injection h with h; subst h
        have hlt : u < E.ufuncs.length := (List.getElem?_eq_some_iff.1 hu).1
        have hget : E.ufuncs[u] = fi := (List.getElem?_eq_some_iff.1 hu).2
        refine ⟨rfl, rfl, ?_, by simp, ?_⟩
        · simp only [Env.usigs]
          apply List.ext_getElem?
          intro j
          by_cases hj : j = u
          · subst hj; simp [hlt, ← hget]
          · simp [List.getElem?_set, Ne.symm hj]
        · intro j hj
          have : j ≠ u := fun e => hj (by rw [e])
          simp [List.getElem?_set, Ne.symm this]
      · cases h

/-- a function that is not imported cannot be replaced this way -/
theorem imported_only (E : Env) (k u : Nat) (body : SL) (extra : List String) (fi : FuncInfo)
    (hk : E.ftab[k]? = some u) (hu : E.ufuncs[u]? = some fi) (hl : fi.imp = none) :
    E.replaceImported k body extra = none := by
  simp [Env.replaceImported, hk, hu, hl]

/-- replacing an exported function: exactly one export entry changes (same name, now the new
    index), the index table is extended by one entry naming a new identifier, the original function
    and every existing function stay where they are — internal callers keep reaching the original —
    and the new function has the original's signature -/
theorem exported_retargets_one_export (m m' : ModuleM) (E E' : Env) (f : Nat) (body : SL) (extra : List String)
    (h : replaceExported m E f body extra = some (m', E')) :
    ∃ ex fi, firstExportOf m f = some ex ∧ ((E.ftab[f]?).bind fun u => E.ufuncs[u]?) = some fi ∧
      m'.exports.length = m.exports.length ∧
      (∀ j, j ≠ ex → m'.exports[j]? = m.exports[j]?) ∧
      m'.exports[ex]? = some ((m.exports[ex]?.map (·.1)).getD "", "f", E.ftab.length) ∧
      (∀ j, j < E.ftab.length → E'.ftab[j]? = E.ftab[j]?) ∧
      E'.ftab[E.ftab.length]? = some E.ufuncs.length ∧
      (∀ u, u < E.ufuncs.length → E'.ufuncs[u]? = E.ufuncs[u]?) ∧
      E'.ufuncs[E.ufuncs.length]? = some ⟨fi.sig, none, fi.lt.take fi.sig.1.length ++ scratchLt extra, body⟩ ∧
      m'.start = m.start ∧ m'.elems = m.elems ∧ m'.code = m.code ∧ m'.imports = m.imports := by
  unfold replaceExported replLt at h
  cases hf : ((E.ftab[f]?).bind fun u => E.ufuncs[u]?) with
  | none => simp [hf] at h
  | some fi =>
    cases he : firstExportOf m f with
    | none => simp [hf, he] at h
    | some ex =>
      simp only [hf, he] at h
      split at h
      · cases h
      · injection h with h
        injection h with h1 h2
        subst h1; subst h2
        have hex : ex < m.exports.length := by
          unfold firstExportOf at he
          simp only at he
          split at he
          · injection he with he; subst he; assumption
          · cases he
        refine ⟨ex, fi, rfl, rfl, by simp, ?_, by simp [hex], ?_, by simp, ?_, by simp, rfl, rfl, rfl, rfl⟩
        · intro j hj
          simp [List.getElem?_set, Ne.symm hj]
        · intro j hj
          simp [List.getElem?_append_left hj]
        · intro j hj
          simp [List.getElem?_append_left hj]

-- non-vacuity
def env2 : Env := ⟨[([], [])], [0, 1], [⟨([], []), some ("env", "f"), [], .nil⟩, ⟨([], []), none, [], .nil⟩]⟩
example : (env2.replaceImported 0 (.cons (.op ⟨"Nop", []⟩) .nil)).isSome = true := by decide
example : (env2.replaceImported 1 .nil).isNone = true := by decide
example : (replaceExported { exports := [("a", "f", 1), ("b", "f", 1)] } env2 1 .nil).map (·.1.exports) =
    some [("a", "f", 2), ("b", "f", 1)] := by decide

end C18
end Walrus
