import Walrus.Proofs.Module

/-!
# C04 — module-level structure is preserved by the round trip

Model: `Walrus/Module.lean` (`roundTripModule`), tied to the code by exact prediction of the decoded
output on generated modules. For *every* module on which the model's round trip succeeds:
-/
namespace Walrus
namespace C04

/-- imports: same number, same order, same module/field names, same kind and — for tables,
    memories and globals — the full type (limits, shared and 64-bit flags, page size, mutability) -/
theorem imports_preserved (m o : ModuleM) (h : roundTripModule m = some o) :
    o.imports.length = m.imports.length ∧
    ∀ (k : Nat) (i : String × String × ImportDescM), m.imports[k]? = some i →
      ∃ j : String × String × ImportDescM, o.imports[k]? = some j ∧ j.1 = i.1 ∧ j.2.1 = i.2.1 ∧
        (match i.2.2 with
         | .func _ => ∃ t, j.2.2 = .func t
         | d => j.2.2 = d) :=
  let c := roundTrip_components m o h
  ⟨c.importsLen, c.imports⟩

/-- local tables and memories are emitted as they came in -/
theorem tables_and_memories_preserved (m o : ModuleM) (h : roundTripModule m = some o) :
    o.tables = m.tables ∧ o.mems = m.mems :=
  let c := roundTrip_components m o h
  ⟨c.tables, c.mems⟩

/-- globals: same number and order, same value type, mutability and sharedness -/
theorem global_types_preserved (m o : ModuleM) (h : roundTripModule m = some o) :
    o.globals.length = m.globals.length ∧
    ∀ (k : Nat) (g : GlobalTyM × CExprM), m.globals[k]? = some g →
      ∃ g' : GlobalTyM × CExprM, o.globals[k]? = some g' ∧ g'.1 = g.1 :=
  let c := roundTrip_components m o h
  ⟨c.globalsLen, c.globals⟩

/-- exports: same number, order, names and kinds; non-function targets unchanged; function targets
    and the start function renamed by one and the same map -/
theorem exports_and_start_preserved (m o : ModuleM) (h : roundTripModule m = some o) :
    o.exports.length = m.exports.length ∧
    (∀ (k : Nat) (e : String × String × Nat), m.exports[k]? = some e →
      ∃ e' : String × String × Nat, o.exports[k]? = some e' ∧ e'.1 = e.1 ∧ e'.2.1 = e.2.1 ∧ (e.2.1 ≠ "f" → e'.2.2 = e.2.2)) ∧
    m.start.isSome = o.start.isSome ∧
    ∃ ρ : List (Nat × Nat),
      (∀ (k : Nat) (e : String × String × Nat), m.exports[k]? = some e → e.2.1 = "f" →
        ∃ e' : String × String × Nat, o.exports[k]? = some e' ∧ assoc ρ e.2.2 = some e'.2.2) ∧
      (∀ s, m.start = some s → ∃ s', o.start = some s' ∧ assoc ρ s = some s') :=
  let c := roundTrip_components m o h
  ⟨c.exportsLen, c.exports, c.startSome, by
    obtain ⟨ρ, h1, h2, _⟩ := c.funcRenaming
    exact ⟨ρ, h1, h2⟩⟩

/-- segments: nothing added or dropped; data payloads, modes and target memories unchanged -/
theorem segments_preserved (m o : ModuleM) (h : roundTripModule m = some o) :
    o.elems.length = m.elems.length ∧ o.datas.length = m.datas.length ∧
    ∀ (k : Nat) (d : DataM), m.datas[k]? = some d →
      ∃ d' : DataM, o.datas[k]? = some d' ∧ d'.bytes = d.bytes ∧
        (match d.mode with
         | .passive => d'.mode = .passive
         | .active mem _ => ∃ off, d'.mode = .active mem off) :=
  let c := roundTrip_components m o h
  ⟨c.elemsLen, c.datasLen, c.datas⟩

/-- non-vacuity: a module with an imported 64-bit shared memory, an imported function, a table,
    a global initialised by `ref.func` and an export goes through the model's round trip -/
def sample : ModuleM :=
  { sigs := [([], []), (["i32"], [])],
    imports := [("env", "mem", .mem ⟨1, some 4, true, true, none⟩), ("env", "f", .func 1)],
    funcs := [0],
    tables := [⟨"funcref", 1, none, false⟩],
    globals := [(⟨"funcref", false, false⟩, [⟨"RefFunc", [.ref "f" 1]⟩])],
    exports := [("main", "f", 1), ("m", "m", 0)],
    start := some 1,
    code := [([], [(⟨"End", []⟩, 0)])] }

example : (roundTripModule sample).map (·.imports) =
    some [("env", "mem", .mem ⟨1, some 4, true, true, none⟩), ("env", "f", .func 1)] := by decide
example : (roundTripModule sample).map (·.exports) = some [("main", "f", 1), ("m", "m", 0)] := by decide
example : (roundTripModule sample).map (·.start) = some (some 1) := by decide
example : (roundTripModule sample).map (·.globals) =
    some [(⟨"funcref", false, false⟩, [⟨"RefFunc", [.ref "f" 1]⟩])] := by decide

end C04
end Walrus
