import Walrus.Proofs.Module
import Walrus.Proofs.FuncSigs

/-!
# C04 — module-level structure is preserved by the round trip

Model: `Walrus/Module.lean` (`roundTripModule`), tied to the code by exact prediction of the decoded
output on generated modules. For *every* module on which the model's round trip succeeds:
-/
namespace Walrus
namespace C04

/-- imports: same number, same order, same module/field names, same kind and — for tables,
    memories and globals — the full type (limits, shared and 64-bit flags, page size, mutability) -/
theorem imports_preserved (m o : ModuleM) (h : roundTripModule m = some o) :
    o.imports.length = m.imports.length ∧
    ∀ (k : Nat) (i : String × String × ImportDescM), m.imports[k]? = some i →
      ∃ j : String × String × ImportDescM, o.imports[k]? = some j ∧ j.1 = i.1 ∧ j.2.1 = i.2.1 ∧
        (match i.2.2 with
         | .func _ => ∃ t, j.2.2 = .func t
         | d => j.2.2 = d) :=
  let c := roundTrip_components m o h
  ⟨c.importsLen, c.imports⟩

/-- **function imports keep their signature**: where the input imports a function of type index
    `t`, the output imports, at the same position and under the same names, a function whose type
    index names the same signature in the output's type section — through type de-duplication and
    the sorted type section -/
theorem function_imports_keep_their_signature (m o : ModuleM) (h : roundTripModule m = some o) :
    ∀ (k : Nat) (a b : String) (t : Nat), m.imports[k]? = some (a, b, .func t) →
      ∃ t' sg, o.imports[k]? = some (a, b, .func t') ∧ m.sigs[t]? = some sg ∧ o.sigs[t']? = some sg :=
  roundTrip_import_sigs m o h

/-- local tables and memories are emitted as they came in -/
theorem tables_and_memories_preserved (m o : ModuleM) (h : roundTripModule m = some o) :
    o.tables = m.tables ∧ o.mems = m.mems :=
  let c := roundTrip_components m o h
  ⟨c.tables, c.mems⟩

/-- globals: same number and order, same value type, mutability and sharedness -/
theorem global_types_preserved (m o : ModuleM) (h : roundTripModule m = some o) :
    o.globals.length = m.globals.length ∧
    ∀ (k : Nat) (g : GlobalTyM × CExprM), m.globals[k]? = some g →
      ∃ g' : GlobalTyM × CExprM, o.globals[k]? = some g' ∧ g'.1 = g.1 :=
  let c := roundTrip_components m o h
  ⟨c.globalsLen, fun k g hk => (c.globals k g hk).imp fun g' hg => ⟨hg.1, hg.2.1⟩⟩

/-- constant expressions (`CExprKept`): the initialiser of every global is written with the same
    operators, one for one and in order — same operator name, same numeric and type immediates;
    an entity operand (`global.get`, `ref.func`) stays an operand of the same index space -/
theorem global_initialisers_preserved (m o : ModuleM) (h : roundTripModule m = some o) :
    ∀ (k : Nat) (g : GlobalTyM × CExprM), m.globals[k]? = some g →
      ∃ g' : GlobalTyM × CExprM, o.globals[k]? = some g' ∧ g'.1 = g.1 ∧ CExprKept g.2 g'.2 :=
  (roundTrip_components m o h).globals

/-- exports: same number, order, names and kinds; non-function targets unchanged; function targets
    and the start function renamed by one and the same map, which is injective (two exports name
    the same function after the round trip only if they did before) -/
theorem exports_and_start_preserved (m o : ModuleM) (h : roundTripModule m = some o) :
    o.exports.length = m.exports.length ∧
    (∀ (k : Nat) (e : String × String × Nat), m.exports[k]? = some e →
      ∃ e' : String × String × Nat, o.exports[k]? = some e' ∧ e'.1 = e.1 ∧ e'.2.1 = e.2.1 ∧ (e.2.1 ≠ "f" → e'.2.2 = e.2.2)) ∧
    m.start.isSome = o.start.isSome ∧
    ∃ ρ : List (Nat × Nat),
      (∀ (k : Nat) (e : String × String × Nat), m.exports[k]? = some e → e.2.1 = "f" →
        ∃ e' : String × String × Nat, o.exports[k]? = some e' ∧ assoc ρ e.2.2 = some e'.2.2) ∧
      (∀ s, m.start = some s → ∃ s', o.start = some s' ∧ assoc ρ s = some s') ∧
      (∀ a b x : Nat, assoc ρ a = some x → assoc ρ b = some x → a = b) :=
  let c := roundTrip_components m o h
  ⟨c.exportsLen, c.exports, c.startSome, by
    obtain ⟨ρ, h1, h2, _, _, h5⟩ := c.funcRenaming
    exact ⟨ρ, h1, h2, h5⟩⟩

/-- two function exports name one and the same function after the round trip exactly when they did
    before it (the renaming is a function, and it is injective) -/
theorem function_exports_alias_iff (m o : ModuleM) (h : roundTripModule m = some o)
    (k1 k2 : Nat) (e1 e2 : String × String × Nat)
    (h1 : m.exports[k1]? = some e1) (h2 : m.exports[k2]? = some e2) (f1 : e1.2.1 = "f") (f2 : e2.2.1 = "f") :
    ∃ e1' e2' : String × String × Nat, o.exports[k1]? = some e1' ∧ o.exports[k2]? = some e2' ∧
      (e1'.2.2 = e2'.2.2 ↔ e1.2.2 = e2.2.2) := by
  obtain ⟨ρ, hex, _, _, _, hinj⟩ := (roundTrip_components m o h).funcRenaming
  obtain ⟨e1', he1, ha1⟩ := hex k1 e1 h1 f1
  obtain ⟨e2', he2, ha2⟩ := hex k2 e2 h2 f2
  refine ⟨e1', e2', he1, he2, ?_, ?_⟩
  · intro heq
    exact hinj _ _ _ ha1 (heq ▸ ha2)
  · intro heq
    rw [heq, ha2] at ha1
    injection ha1 with ha1
    exact ha1.symm

/-- segments: nothing added or dropped; data payloads, modes and target memories unchanged, the
    offset expression of an active data segment kept operator for operator (`CExprKept`) -/
theorem segments_preserved (m o : ModuleM) (h : roundTripModule m = some o) :
    o.elems.length = m.elems.length ∧ o.datas.length = m.datas.length ∧
    ∀ (k : Nat) (d : DataM), m.datas[k]? = some d →
      ∃ d' : DataM, o.datas[k]? = some d' ∧ d'.bytes = d.bytes ∧
        (match d.mode with
         | .passive => d'.mode = .passive
         | .active mem o => ∃ off, d'.mode = .active mem off ∧ CExprKept o off) :=
  let c := roundTrip_components m o h
  ⟨c.elemsLen, c.datasLen, c.datas⟩

/-- element segments: the `k`-th segment of the output is the `k`-th of the input — same mode
    (active on the same table, an absent table operand meaning table 0; passive; declared), same
    kind of items, same element type and number of expression items — and its function items are
    the input's renamed, one by one and in order, by the *same* map that renames the function
    operands of the exports and of the start section; the offset expression of an active segment
    and every expression item are kept operator for operator (`CExprKept`): a table slot, an export and the start
    section that named one function before the round trip name one function after it, and (the map being injective)
    two that named different functions still do -/
theorem element_segments_preserved (m o : ModuleM) (h : roundTripModule m = some o) :
    ∃ ρ : List (Nat × Nat),
      (∀ (k : Nat) (e : String × String × Nat), m.exports[k]? = some e → e.2.1 = "f" →
        ∃ e' : String × String × Nat, o.exports[k]? = some e' ∧ assoc ρ e.2.2 = some e'.2.2) ∧
      (∀ s, m.start = some s → ∃ s', o.start = some s' ∧ assoc ρ s = some s') ∧
      (∀ (k : Nat) (e : ElemM), m.elems[k]? = some e → ∃ e' : ElemM, o.elems[k]? = some e' ∧
        (match e.mode with
         | .active t off => ∃ t' off', e'.mode = .active t' off' ∧ t'.getD 0 = t.getD 0 ∧ CExprKept off off'
         | .passive => e'.mode = .passive
         | .declared => e'.mode = .declared) ∧
        (match e.items with
         | .funcs fs => ∃ fs', e'.items = .funcs fs' ∧ fs'.length = fs.length ∧
             ∀ (i f : Nat), fs[i]? = some f → ∃ f', fs'[i]? = some f' ∧ assoc ρ f = some f'
         | .exprs ty es => ∃ es', e'.items = .exprs ty es' ∧ es'.length = es.length ∧
             ∀ (i : Nat) (c : CExprM), es[i]? = some c → ∃ c', es'[i]? = some c' ∧ CExprKept c c')) ∧
      (∀ a b x : Nat, assoc ρ a = some x → assoc ρ b = some x → a = b) := by
  obtain ⟨ρ, h1, h2, _, h4, h5⟩ := (roundTrip_components m o h).funcRenaming
  refine ⟨ρ, h1, h2, ?_, h5⟩
  intro k e hk
  obtain ⟨e', he', hmode, hitems⟩ := h4 k e hk
  refine ⟨e', he', hmode, ?_⟩
  cases hi : e.items with
  | funcs fs =>
    simp only [hi] at hitems
    obtain ⟨fs', hf, hm, hl⟩ := hitems
    exact ⟨fs', hf, hl, fun i f hif => mapM_some_get _ _ _ hm i f hif⟩
  | exprs ty es =>
    simp only [hi] at hitems
    exact hitems

/-- non-vacuity: a module with an imported 64-bit shared memory, an imported function, a table,
    a global initialised by `ref.func` and an export goes through the model's round trip -/
def sample : ModuleM :=
  { sigs := [([], []), (["i32"], [])],
    imports := [("env", "mem", .mem ⟨1, some 4, true, true, none⟩), ("env", "f", .func 1)],
    funcs := [0],
    tables := [⟨"funcref", 1, none, false⟩],
    globals := [(⟨"funcref", false, false⟩, [⟨"RefFunc", [.ref "f" 1]⟩])],
    exports := [("main", "f", 1), ("m", "m", 0)],
    start := some 1,
    code := [([], [(⟨"End", []⟩, 0)])] }

example : (roundTripModule sample).map (·.imports) =
    some [("env", "mem", .mem ⟨1, some 4, true, true, none⟩), ("env", "f", .func 1)] := by decide
example : (roundTripModule sample).map (·.exports) = some [("main", "f", 1), ("m", "m", 0)] := by decide
example : (roundTripModule sample).map (·.start) = some (some 1) := by decide
example : (roundTripModule sample).map (·.globals) =
    some [(⟨"funcref", false, false⟩, [⟨"RefFunc", [.ref "f" 1]⟩])] := by decide

/-- non-vacuity for the element theorem: an active segment on table 0 with two function items and a
    declared expression segment go through the model's round trip -/
def sampleE : ModuleM :=
  { sample with elems := [⟨0, .active none [⟨"I32Const", [.imm "0"]⟩], .funcs [1, 0]⟩,
                          ⟨7, .declared, .exprs "funcref" [[⟨"RefFunc", [.ref "f" 1]⟩]]⟩] }
example : (roundTripModule sampleE).map (·.elems) = some sampleE.elems := by decide


/-- **every function keeps its signature**: the `j`-th function of the output's function section is
    the input's `k`-th local function for some `k` (the round trip reorders functions by size), and
    the signature the output's type section gives it is the signature the input's type section
    gave to that function — through type de-duplication, type sorting and function reordering.
    The function count is preserved. -/
theorem functions_keep_their_signature (m o : ModuleM) (h : roundTripModule m = some o) :
    o.funcs.length = m.funcs.length ∧
    ∀ (j tj : Nat), o.funcs[j]? = some tj → ∃ (k tk : Nat) (sg : Sig), m.funcs[k]? = some tk ∧
      m.sigs[tk]? = some sg ∧ o.sigs[tj]? = some sg := by
  unfold roundTripModule at h
  simp only at h
  split at h
  · cases h
  · rename_i hlen
    split at h
    · cases h
    · rename_i pfs hpfs
      split at h
      · cases h
      · rename_i oc hoc
        split at h
        · rename_i im gl ex st el da him hgl hex hst hel hda
          simp only [Option.some.injEq] at h
          subst h
          simp only
          have hcl : (List.map (fun p : (List (Nat × String) × List (Op × Nat)) × Nat => (⟨p.2, p.1.1, p.1.2⟩ : InFunc)) (m.code.zip m.funcs)).length = m.funcs.length := by
            have : m.code.length = m.funcs.length := by simpa using hlen
            simp [this]
          constructor
          · -- lengths: emitted functions = parsed functions = input functions
            have h1 := (parseCode_spec _ pfs hpfs).1
            unfold emitCode emitCodeWith keepAll at hoc
            simp only [Option.map_eq_some_iff] at hoc
            obtain ⟨fs, hfs, rfl⟩ := hoc
            have h2 := mapM_some_length _ _ _ hfs
            simp only [List.length_map]
            rw [h2]
            have h3 : ∀ (l : List (ParsedFunc × Nat)), (sortBy (fun a b => decide (a.2 > b.2) || (a.2 == b.2 && decide (a.1.id ≤ b.1.id))) l).length = l.length := by
              intro l
              induction l with
              | nil => rfl
              | cons x xs ih =>
                simp only [sortBy, List.foldr_cons] at ih ⊢
                have hins : ∀ (y : ParsedFunc × Nat) (r : List (ParsedFunc × Nat)),
                    (insertBy (fun a b => decide (a.2 > b.2) || (a.2 == b.2 && decide (a.1.id ≤ b.1.id))) y r).length = r.length + 1 := by
                  intro y r
                  induction r with
                  | nil => rfl
                  | cons z zs ihz => simp only [insertBy]; split <;> simp [ihz]
                rw [hins, ih]; rfl
            rw [h3]
            simp only [List.length_map]
            have hall : (pfs.filter fun f => (List.range (importedCount m "f" + pfs.length)).contains f.id) = pfs := by
              apply List.filter_eq_self.2
              intro pf hpf
              obtain ⟨k, hk⟩ := List.getElem?_of_mem hpf
              have hklt : k < pfs.length := (List.getElem?_eq_some_iff.1 hk).1
              have hkf : k < (List.map (fun p : (List (Nat × String) × List (Op × Nat)) × Nat => (⟨p.2, p.1.1, p.1.2⟩ : InFunc)) (m.code.zip m.funcs)).length := by
                rw [← h1]; exact hklt
              obtain ⟨pf2, hpf2, hid, _⟩ := (parseCode_spec _ pfs hpfs).2 k _ (List.getElem?_eq_getElem hkf)
              rw [hk] at hpf2
              injection hpf2 with hpf2
              subst hpf2
              simp [hid]
              omega
            rw [hall, h1, hcl]
          · intro j tj hj
            simp only [List.getElem?_map, Option.map_eq_some_iff] at hj
            obtain ⟨f, hf, rfl⟩ := hj
            obtain ⟨k, inF, sg, hk, _, hsg, hos⟩ := emitted_function_keeps_signature _ pfs oc hpfs hoc j f hf
            simp only [List.getElem?_map, Option.map_eq_some_iff] at hk
            obtain ⟨q, hq, rfl⟩ := hk
            refine ⟨k, q.2, sg, ?_, hsg, hos⟩
            have := List.getElem?_zip_eq_some.1 hq
            exact this.2
        · cases h

end C04
end Walrus