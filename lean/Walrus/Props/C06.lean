import Walrus.Proofs.Gc
import Walrus.Proofs.Module

/-!
# C06 — the GC pass never changes behaviour or breaks the module

What the proof carries (behaviour itself needs an executable semantics, see C01): the GC pass keeps
**every export, with its name and kind, in order**; the used set contains every root and is closed
under every edge the code scans — so anything a kept function, global, table, memory, data or
element segment refers to is kept as well; and lookups in the compaction maps succeed on everything
kept.  The remaining obligation — that the scanned edges are *all* the edges (every id operand of
every instruction, both element item kinds, const expressions, back-links) — is decided against the
code: the model's used set is compared with walrus's on every generated module (exact prediction of
the emitted module), an independent reachability over the input binary is compared with what
survives (oracle), and the output is validated.  `partial`: execution equivalence is not a theorem.
-/
namespace Walrus
namespace C06

/-- **exports survive the pass**: same count, same names and kinds, in order -/
theorem exports_preserved (m o : ModuleM) (h : gcRoundTrip m = some o) :
    o.exports.length = m.exports.length ∧
    ∀ (k : Nat) (e : String × String × Nat), m.exports[k]? = some e → ∃ i, o.exports[k]? = some (e.1, e.2.1, i) := by
  unfold gcRoundTrip at h
  simp only at h
  split at h
  · cases h
  · split at h
    · cases h
    · split at h
      · cases h
      · split at h
        · rename_i im gl ex st el da him hgl hex hst hel hda
          simp only [Option.some.injEq] at h
          subst h
          refine ⟨mapM_some_length _ _ _ hex, ?_⟩
          intro k e hk
          obtain ⟨y, hy, hf⟩ := mapM_some_get _ _ _ hex k e hk
          simp only [Option.map_eq_some_iff] at hf
          obtain ⟨i, _, rfl⟩ := hf
          exact ⟨i, hy⟩
        · cases h

/-- every export target, the start function, every active data segment and every rooted element
    segment is in the used set -/
theorem roots_kept (g : GcInfo) (hd : usedFinished g = true) (x : Ent) (hx : x ∈ gcRoots g) :
    x ∈ usedSet g := usedSet_roots g hd x hx

theorem export_targets_kept (g : GcInfo) (hd : usedFinished g = true) (e : String × String × Nat)
    (he : e ∈ g.m.exports) : (e.2.1, e.2.2) ∈ usedSet g := by
  apply usedSet_roots g hd
  unfold gcRoots
  simp only [List.mem_append, List.mem_map]
  exact Or.inl (Or.inl (Or.inl (Or.inl ⟨e, he, rfl⟩)))

theorem start_kept (g : GcInfo) (hd : usedFinished g = true) (s : Nat) (hs : g.m.start = some s) :
    ("f", s) ∈ usedSet g := by
  apply usedSet_roots g hd
  unfold gcRoots
  simp only [List.mem_append, List.mem_map]
  exact Or.inl (Or.inl (Or.inl (Or.inr ⟨s, by simp [hs], rfl⟩)))

/-- what a custom section declares as a root is kept -/
theorem custom_section_roots_kept (g : GcInfo) (hd : usedFinished g = true) (x : Ent) (hx : x ∈ g.m.roots) :
    x ∈ usedSet g := by
  apply usedSet_roots g hd
  unfold gcRoots
  exact List.mem_append_right _ hx

/-- **everything a kept entity refers to is kept** (for every edge the code scans) -/
theorem referents_kept (g : GcInfo) (hd : usedFinished g = true) (x y : Ent)
    (hx : Reach (gcSucc g) (gcRoots g).eraseDups x) (hy : y ∈ gcSucc g x) : y ∈ usedSet g :=
  usedSet_closed g hd x y ((closure_is_reach _ _ _ (usedFinished_done g hd) x).2 hx) hy

/-- in particular: the type of a kept local function and every entity operand of the instructions
    its traversal reaches -/
theorem body_referents_kept (g : GcInfo) (hd : usedFinished g = true) (f : Nat) (pf : ParsedFunc)
    (hloc : ¬ f < g.nif) (hpf : g.pfs[f - g.nif]? = some pf)
    (hx : Reach (gcSucc g) (gcRoots g).eraseDups ("f", f)) :
    ("y", pf.ty) ∈ usedSet g ∧ ∀ y ∈ refsOfBody pf.seqs, y ∈ usedSet g := by
  have hs : gcSucc g ("f", f) = ("y", pf.ty) :: refsOfBody pf.seqs := by
    simp [gcSucc, hloc, hpf]
  exact ⟨referents_kept g hd _ _ hx (by rw [hs]; exact List.mem_cons_self),
         fun y hy => referents_kept g hd _ _ hx (by rw [hs]; exact List.mem_cons_of_mem _ hy)⟩

/-- a kept entity always has an emitted index -/
theorem kept_has_index (u : List Ent) (sp : String) (n i : Nat) (hi : i < n) (hu : (sp, i) ∈ u) :
    (assoc (compact (keptOf u sp n)) i).isSome = true :=
  assoc_compact_some _ _ ((mem_keptOf u sp n i).2 ⟨hi, hu⟩)

-- non-vacuity
def sample : ModuleM :=
  { sigs := [([], [])], funcs := [0, 0],
    globals := [(⟨"i32", true, false⟩, [⟨"I32Const", [.num 1]⟩])],
    exports := [("run", "f", 0)],
    code := [([], [(⟨"Call", [.ref "f" 1]⟩, 0), (⟨"End", []⟩, 0)]),
             ([], [(⟨"GlobalGet", [.ref "g" 0]⟩, 0), (⟨"Drop", []⟩, 0), (⟨"End", []⟩, 0)])] }
example : (gcRoundTrip sample).map (fun o => (o.exports, o.globals.length)) = some ([("run", "f", 1)], 1) := by decide
example : (mkGcInfo sample).map usedFinished = some true := by decide

end C06
end Walrus
