import Walrus.Proofs.Sections

/-!
# C12 — unknown custom sections survive untouched

Model: `Walrus/Sections.lean`. "Unknown" = the name is not `name`, not `producers` and does not
start with `.debug` (`classify = raw`). Statements hold for every input, every configuration,
and every script of emits and GC runs on one in-memory module.
-/
namespace Walrus
namespace C12

/-- after parsing, the module holds exactly the input's unknown custom sections, in input order -/
theorem parsed_customs (cfg : SCfg) (ver : String) (input : List InC) (m : SMod)
    (h : sparse cfg ver true input = some m) : m.customs = rawIn input := by
  simp only [sparse, Bool.not_true, Bool.false_eq_true, if_false, Option.some.injEq] at h
  subst h
  simp [foldl_parseCustom_customs]

/-- every emit of a module that holds unknown custom sections re-emits each of them with identical
    name and payload, exactly once, in the original relative order -/
theorem emit_keeps_customs (m : SMod) (hraw : ∀ c ∈ m.customs, classify c.1 = .raw) :
    rawOut (semit m).1 = m.customs := by
  rw [rawOut_semit]
  apply List.filter_eq_self.2
  intro c hc
  simp [classify_raw_not_debug (hraw c hc)]

theorem rawIn_raw (input : List InC) : ∀ c ∈ rawIn input, classify c.1 = .raw := by
  intro c hc
  simp only [rawIn, List.mem_map, List.mem_filter, decide_eq_true_eq] at hc
  obtain ⟨x, ⟨_, hx⟩, rfl⟩ := hc
  exact hx

/-- emitting and the GC pass leave the custom sections of the in-memory module alone -/
theorem script_preserves (m : SMod) (script : List SOp) :
    ∀ o ∈ srun m script, rawOut o = rawOut (semit m).1 := by
  induction script generalizing m with
  | nil => intro o ho; cases ho
  | cons op r ih =>
    intro o ho
    cases op with
    | emit =>
      simp only [srun, List.mem_cons] at ho
      rcases ho with ho | ho
      · subst ho; rfl
      · exact ih (semit m).2 o ho
    | gc =>
      simp only [srun] at ho
      exact ih (sgc m) o ho

/-- **C12.** For every accepted input and every script of emits / GC runs on the parsed module
    (emit, GC+emit, emit twice, …), each produced binary carries exactly the input's unknown custom
    sections: same names, same payloads, same multiplicity, same relative order. -/
theorem customs_survive (cfg : SCfg) (ver : String) (input : List InC) (m : SMod)
    (h : sparse cfg ver true input = some m) (script : List SOp) :
    ∀ o ∈ srun m script, rawOut o = rawIn input := by
  intro o ho
  rw [script_preserves m script o ho, emit_keeps_customs m, parsed_customs cfg ver input m h]
  rw [parsed_customs cfg ver input m h]
  exact rawIn_raw input

/-- non-vacuity: the hypothesis of `customs_survive` is met by *every* valid input -/
theorem parse_total (cfg : SCfg) (ver : String) (input : List InC) :
    ∃ m, sparse cfg ver true input = some m := by
  simp [sparse]

/-- concrete instance: two unknown sections, one with a duplicated name and an empty payload,
    around interpreted ones; emitted twice with a GC in between. -/
example :
    let input : List InC := [⟨"x", "00ff", [], none, false⟩, ⟨"producers", "", [], none, false⟩,
                             ⟨"x", "", [], none, false⟩, ⟨".debug_info", "01", [], none, true⟩]
    (sparse ⟨false, false, false⟩ "0.23.3" true input).map (fun m => (srun m [.emit, .gc, .emit]).map rawOut)
      = some [[("x", "00ff"), ("x", "")], [("x", "00ff"), ("x", "")]] := by decide

end C12
end Walrus
