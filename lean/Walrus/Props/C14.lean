import Walrus.Props.C08

/-!
# C14 — configuration switches do exactly what they document

Model: `Walrus/Sections.lean` (custom-section tail of `emit_wasm`, producers handling, the parse
callback). Statements hold for every input and every setting of the other switches.
The standard (non-custom) sections do not depend on these switches in the code; that part of
"and nothing else" is carried by the byte-level oracle of the `sections` suite.
-/
namespace Walrus
namespace C14

def isNames : OutC → Bool | .names _ => true | _ => false
def isProducers : OutC → Bool | .producers _ => true | _ => false
def isDwarf : OutC → Bool | .dwarf => true | _ => false

/-- switching name generation off removes exactly the name section -/
theorem skip_name_exact (m : SMod) :
    (semit { m with cfg := { m.cfg with skipName := true } }).1 =
      (semit { m with cfg := { m.cfg with skipName := false } }).1.filter (fun o => !isNames o) := by
  simp only [semit]
  cases m.modname.isSome <;> cases m.cfg.skipProducers <;> cases m.producers.isEmpty <;>
    cases m.cfg.generateDwarf <;> cases m.hasDwarf <;>
    simp [isNames, List.filter_append, List.filter_map, Function.comp_def]

/-- switching producers generation off removes exactly the producers section -/
theorem skip_producers_exact (m : SMod) :
    (semit { m with cfg := { m.cfg with skipProducers := true } }).1 =
      (semit { m with cfg := { m.cfg with skipProducers := false } }).1.filter (fun o => !isProducers o) := by
  simp only [semit]
  cases m.modname.isSome <;> cases m.cfg.skipName <;> cases m.producers.isEmpty <;>
    cases m.cfg.generateDwarf <;> cases m.hasDwarf <;>
    simp [isProducers, List.filter_append, List.filter_map, Function.comp_def]

/-- DWARF sections are carried into the output exactly when DWARF generation is on and the module
    carries DWARF -/
theorem dwarf_iff (m : SMod) :
    (semit m).1.any isDwarf = (m.cfg.generateDwarf && m.hasDwarf) := by
  simp only [semit]
  cases m.modname.isSome <;> cases m.cfg.skipName <;> cases m.cfg.skipProducers <;> cases m.producers.isEmpty <;>
    cases m.cfg.generateDwarf <;> cases m.hasDwarf <;>
    simp [isDwarf, List.any_append, List.any_map, Function.comp_def]

/-- … and a parsed module carries DWARF exactly when the input has a non-empty `.debug*` section -/
theorem parsed_dwarf (cfg : SCfg) (ver : String) (input : List InC) (m : SMod)
    (h : sparse cfg ver true input = some m) :
    m.hasDwarf = input.any (fun c => decide (classify c.name = .debug) && c.nonEmptyDwarf) := by
  rw [sparse_eq] at h
  cases h
  rfl

/-- with producers generation on, after parsing: walrus is recorded exactly once as a processing
    tool, and every other field of the input is preserved in place -/
theorem producers_once (cfg : SCfg) (ver : String) (input : List InC) (m : SMod)
    (h : sparse cfg ver true input = some m) (hwf : PWF (prodIn input)) :
    countEntry m.producers "processed-by" "walrus" = 1 ∧
    m.producers.filter (fun f => f.name ≠ "processed-by") = (prodIn input).filter (fun f => f.name ≠ "processed-by") ∧
    PWF m.producers := by
  rw [sparse_eq] at h
  cases h
  have := count_producersField (prodIn input) "processed-by" "walrus" ver hwf
  exact ⟨this.1, producersField_others _ _ _ _, this.2⟩

/-- `n` further round trips of an output -/
def again (cfg : SCfg) (ver : String) : Nat → List OutC → List OutC
  | 0, out => out
  | n+1, out => again cfg ver n (C08.roundTrip cfg ver (out.map OutC.toIn))

/-- … however often the module is round-tripped: the output of every further round trip equals
    the output of the first -/
theorem producers_stable (cfg : SCfg) (ver : String) (input : List InC) (n : Nat) :
    again cfg ver n (C08.roundTrip cfg ver input) = C08.roundTrip cfg ver input := by
  induction n with
  | zero => rfl
  | succ n ih =>
    simp only [again]
    rw [C08.roundtrip_fixpoint cfg ver input]
    exact ih

/-- the parse callback runs exactly once per successful parse and never on a failed one -/
theorem on_parse_once (cfg : SCfg) (ver : String) (input : List InC) :
    (∀ m, sparse cfg ver true input = some m → m.onParseCalls = 1) ∧
    sparse cfg ver false input = none := by
  constructor
  · intro m h
    rw [sparse_eq] at h
    cases h; rfl
  · simp [sparse]

/-- non-vacuity: a well-formed producers section that already names walrus once -/
example : PWF [⟨"language", [("Rust", "2021")]⟩, ⟨"processed-by", [("clang", "1"), ("walrus", "0.1")]⟩] := by
  refine ⟨by decide, ?_⟩
  intro x hx
  simp only [List.mem_cons, List.mem_nil_iff, or_false] at hx
  rcases hx with rfl | rfl <;> decide

example : producersField [⟨"language", [("Rust", "2021")]⟩, ⟨"processed-by", [("clang", "1"), ("walrus", "0.1")]⟩]
    "processed-by" "walrus" "0.23.3"
    = [⟨"language", [("Rust", "2021")]⟩, ⟨"processed-by", [("clang", "1"), ("walrus", "0.23.3")]⟩] := by decide

end C14
end Walrus
