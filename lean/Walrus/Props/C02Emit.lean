import Walrus.Proofs.GcEmit
import Walrus.Proofs.GcCode
import Walrus.Proofs.GcCodeEmit
import Walrus.Proofs.BodiesOK
import Walrus.Proofs.PlainEmit
import Walrus.Proofs.Shape

/-!
# C02 (continued) — after the GC pass every section finds the indices it needs

`Props/C02.lean` proves that a lookup fails only on an entity without an emitted index.  This file
proves that, after the GC pass, that does not happen outside the code section: for every module
whose references are in range (`gcWF`) and well-shaped (`SectionsWF`: export kinds, constant
expressions that name globals and functions only, segment offsets that name globals only, function
imports with a type that exists — all guaranteed by validation), if the code section emits then
imports, globals, exports, the start section, element segments and data segments all emit, i.e.
`gcRoundTrip` answers.  The used set is closed under every edge those sections follow
(`closure_is_reach`, `worklist_terminates`), every kept entity has an index in its compaction map,
and the function map covers the kept imports and the emitted functions.  What remains outside a
theorem for C02: the code section itself (the operands of the instructions the traversal reaches
are kept — `C06.body_referents_kept` — but that `emitCodeWith` then succeeds is established by
exact prediction, not proved), and validity of the output (wasmparser's verdict).
-/
namespace Walrus
namespace C02

/-- **after GC, no section outside the code section is left without an emitted index** -/
theorem after_gc_every_section_emits (m : ModuleM) (g : GcInfo) (hg : mkGcInfo m = some g)
    (hlen : m.code.length = m.funcs.length) (hw : gcWF g = true) (hs : SectionsWF m) (oc : OutCode)
    (hoc : emitCodeWith (codeOf m) g.pfs
      ⟨keptOf (usedSet g) "f" (g.nif + m.funcs.length), keptOf (usedSet g) "y" (distinctSigs m.sigs).length,
       { tables := compact (keptOf (usedSet g) "t" (g.nit + m.tables.length)),
         mems := compact (keptOf (usedSet g) "m" (g.nim + m.mems.length)),
         globals := compact (keptOf (usedSet g) "g" (g.nig + m.globals.length)),
         elems := compact (keptOf (usedSet g) "e" m.elems.length),
         datas := compact (keptOf (usedSet g) "d" m.datas.length) }⟩ = some oc) :
    (gcRoundTrip m).isSome = true :=
  gc_sections_emit m g hg hlen hw hs oc hoc

/-- the pieces, each usable on its own: every used function that exists has a function index … -/
theorem kept_function_has_an_index (m : ModuleM) (g : GcInfo) (hg : mkGcInfo m = some g)
    (hlen : m.code.length = m.funcs.length) (ky : List Nat) (other : IdMaps) (oc : OutCode)
    (hoc : emitCodeWith (codeOf m) g.pfs ⟨keptOf (usedSet g) "f" (g.nif + m.funcs.length), ky, other⟩ = some oc)
    (f : Nat) (hf : ("f", f) ∈ usedSet g) (hr : ("f", f) ∈ entUniverse g) :
    (assoc (gcFuncMap g m oc) f).isSome = true :=
  gcFuncMap_total m g hg hlen ky other oc hoc f hf hr

/-- … and every used type id has a type index -/
theorem kept_type_has_an_index (g : GcInfo) (m : ModuleM) (tid : Nat) (hr : tid < (distinctSigs m.sigs).length)
    (hu : ("y", tid) ∈ usedSet g) : (assoc (gcTyMap g m) tid).isSome = true :=
  gcTyMap_total g m tid hr hu

/-- **after GC, every entity operand of every instruction of every kept function has an emitted
    index** in the maps its body is emitted with (`mapsOf`: the maps of `emitCodeWith`): functions,
    tables, memories, globals, data and element segments, the types of `call_indirect` and of block
    types.  Together with `after_gc_every_section_emits` this is the statement "no entity that is
    still referenced is left without an emitted index" for the whole module.  (That the code
    section's *structure* then emits — branch targets resolve, the traversal terminates — is the
    C03 theorem for parsed bodies plus exact prediction.) -/
theorem after_gc_every_body_operand_has_an_index (m : ModuleM) (g : GcInfo) (hg : mkGcInfo m = some g)
    (hlen : m.code.length = m.funcs.length) (hw : gcWF g = true) (f : Nat) (pf : ParsedFunc)
    (hloc : ¬ f < g.nif) (hpf : g.pfs[f - g.nif]? = some pf) (hf : ("f", f) ∈ usedSet g)
    (lmap : List (Nat × Nat)) (y : Ent) (hy : y ∈ refsOfBody pf.seqs)
    (hty : y.1 = "y" → y.2 < (distinctSigs m.sigs).length) :
    ((mapsOf (codeOf m) g.pfs (gcKeep g m) lmap).get y.1 y.2).isSome = true :=
  gc_body_operands_have_indices m g hg hlen hw f pf hloc hpf hf lmap y hy hty

-- non-vacuity: a module with an export, a start function, an imported and a local global, an active
-- data and element segment satisfies the hypotheses, and the model's GC round trip answers
def sample : ModuleM :=
  { sigs := [([], [])], imports := [("env", "g", .global ⟨"i32", false, false⟩), ("env", "f", .func 0)],
    funcs := [0, 0], tables := [⟨"funcref", 2, none, false⟩], mems := [⟨1, none, false, false, none⟩],
    globals := [(⟨"i32", false, false⟩, [⟨"GlobalGet", [.ref "g" 0]⟩])],
    exports := [("run", "f", 1), ("t", "t", 0)], start := some 1,
    elems := [⟨0, .active none [⟨"GlobalGet", [.ref "g" 0]⟩], .funcs [0, 2]⟩],
    datas := [⟨0, .active 0 [⟨"I32Const", [.num 8]⟩], "00"⟩],
    code := [([], [(⟨"GlobalGet", [.ref "g" 1]⟩, 0), (⟨"Drop", []⟩, 0), (⟨"End", []⟩, 0)]),
             ([], [(⟨"End", []⟩, 0)])] }

example : (mkGcInfo sample).map gcWF = some true := by decide
-- the body of local function 2 (index 1 among the imports-first functions … here f = 1) names global 1
example : (mkGcInfo sample).map (fun g => (g.pfs.map fun pf => (refsOfBody pf.seqs).filter (·.1 ≠ "y"))) =
    some [[("g", 1)], []] := by decide
example : (gcRoundTrip sample).map (fun o => (o.imports.length, o.funcs.length, o.globals.length, o.elems.length, o.datas.length)) =
    some (2, 2, 1, 1, 1) := by decide

/-- **after GC, the code section emits**: for every module whose references are in range (`gcWF`)
    and whose function bodies are well-nested, carry immediates where the binary format has them
    and parse (`BodiesWF`: what the decoder and the validator guarantee, in the tree terms of the
    C03 theorems), the emission of the type, function and code sections after the pass answers:
    the traversal of every kept body finishes within the model's fuel, every branch target
    resolves, the block-kind stack never underflows, and every lookup the `Emit` visitor makes —
    entity operands, locals (`emit_locals` covers every local the body uses), block types, the
    function's own type — finds an index. -/
theorem after_gc_the_code_section_emits (m : ModuleM) (g : GcInfo) (hg : mkGcInfo m = some g)
    (hlen : m.code.length = m.funcs.length) (hw : gcWF g = true) (hb : BodiesWF m g) :
    (emitCodeWith (codeOf m) g.pfs (gcKeep g m)).isSome = true :=
  gc_code_section_emits m g hg hlen hw hb

/-- **after GC, the whole module emits** (the model's `parse → gc::run → emit` answers, i.e. no
    `get_*_index` of an entity without an emitted index, no unresolved branch target, no missing
    local): `after_gc_the_code_section_emits` discharges the one hypothesis
    `after_gc_every_section_emits` left open. What remains outside a theorem for C02 is the
    verdict of the validator on the bytes. -/
theorem after_gc_the_whole_module_emits (m : ModuleM) (g : GcInfo) (hg : mkGcInfo m = some g)
    (hlen : m.code.length = m.funcs.length) (hw : gcWF g = true) (hs : SectionsWF m) (hb : BodiesWF m g) :
    (gcRoundTrip m).isSome = true := by
  obtain ⟨oc, hoc⟩ := Option.isSome_iff_exists.1 (gc_code_section_emits m g hg hlen hw hb)
  exact after_gc_every_section_emits m g hg hlen hw hs oc hoc

/-- emission of one parsed body fails only if a lookup fails (any maps, no pass needed): the fuel
    suffices, branch targets resolve, the kind stack never underflows -/
theorem parsed_body_emission_fails_only_on_a_lookup (mp : IdMaps) (e : PEnv) (entryTy : Nat) (body : PL)
    (hw : body.WF) (hc : body.Clean) (endLoc : Nat) (is : List (BInstr × Nat)) (cs : List PSeq) (u : Bool)
    (h : expL e [0] 1 false body = some (is, cs, u)) :
    ∃ seqs, buildBody e entryTy (body.flat ++ [(opEnd, endLoc)]) = some seqs ∧
      ((∀ ev ∈ (bodyEvents (PSeqs.toArena seqs) (arenaFuel (PSeqs.toArena seqs)) 0).2.tail, evOKp e mp ev) →
        (emitBodyMarks mp (PSeqs.toArena seqs) 0).isSome = true) :=
  parsed_body_emits mp e entryTy body hw hc endLoc is cs u h

-- non-vacuity: the sample module satisfies every hypothesis of `after_gc_the_whole_module_emits`
def sampleBody0 : PL := .cons (.op ⟨"GlobalGet", [.ref "g" 1]⟩ 0) (.cons (.op ⟨"Drop", []⟩ 0) .nil)

example : ∃ g, mkGcInfo sample = some g ∧ sample.code.length = sample.funcs.length ∧ gcWF g = true ∧
    BodiesWF sample g := by
  refine ⟨_, rfl, by decide, by decide, ?_⟩
  intro k f pf hf hpf
  match k with
  | 0 =>
    simp only [codeOf, sample] at hf
    obtain rfl := Option.some.inj hf
    obtain rfl := Option.some.inj hpf
    exact ⟨sampleBody0, 0, _, _, _, by simp [sampleBody0, PL.WF, PI.WF, isStructural],
      by simp [sampleBody0, PL.Clean, PI.Clean, opClean, entSpaces], rfl, rfl⟩
  | 1 =>
    simp only [codeOf, sample] at hf
    obtain rfl := Option.some.inj hf
    obtain rfl := Option.some.inj hpf
    exact ⟨.nil, 0, _, _, _, by simp [PL.WF], by simp [PL.Clean], rfl, rfl⟩
  | k + 2 => simp [codeOf, sample] at hf

/-- **the same with every hypothesis decidable** — and evaluated by the model driver on every case
    of the correspondence run (`gcWF`: "reference-out-of-range", `bodiesOK`: "body-not-well-nested",
    `sectionsOK`: "section-not-well-formed"; a case on which one of them failed would be answered
    with that word instead of a module and show as a disagreement): whenever the checks pass, the
    model's `parse → gc::run → emit` answers with a module -/
theorem after_gc_the_whole_module_emits_checked (m : ModuleM) (g : GcInfo) (hg : mkGcInfo m = some g)
    (hlen : m.code.length = m.funcs.length) (hw : gcWF g = true) (hs : sectionsOK m = true)
    (hb : bodiesOK m g = true) : (gcRoundTrip m).isSome = true :=
  after_gc_the_whole_module_emits m g hg hlen hw (sectionsOK_sound m hs) (bodiesOK_sound m g hg hb)

example : (mkGcInfo sample).map (fun g => (gcWF g, bodiesOK sample g, sectionsOK sample)) = some (true, true, true) := by
  decide

/-- **emitting immediately after parsing**: if the model's parse of the code-related sections
    succeeds and the hypotheses in decidable form hold (bodies well-nested and clean — `bodiesOKc` —,
    constant expressions well-shaped, function references in range: what decoding and validation
    guarantee; the driver evaluates them on every `module` request), the model's `parse → emit`
    answers with a module: no lookup of an index, a branch target or a local fails anywhere -/
theorem parse_then_emit_answers_checked (m : ModuleM) (pfs : List ParsedFunc)
    (hlen : m.code.length = m.funcs.length) (hp : parseCode (codeOf m) = some pfs)
    (hb : bodiesOKc m pfs = true) (hs : sectionsOK m = true) (hr : funcRefsOK m = true) :
    (roundTripModule m).isSome = true :=
  plain_module_emits m pfs hlen hp (bodiesOKc_sound m pfs hb) hs hr

example : (parseCode (codeOf sample)).map (fun pfs => (bodiesOKc sample pfs, sectionsOK sample, funcRefsOK sample)) =
    some (true, true, true) := by decide
example : (roundTripModule sample).isSome = true := by decide

/-- **the two totality theorems with hypotheses on the input alone**: for a well-nested body the
    success of the parse already is the answer of its tree-level description
    (`expL_of_buildBody`, Proofs/ParseConverse: the converse of the C03 parse theorem), so the only
    hypotheses left are the shape of the bodies (`shapesOK`), of the other sections (`sectionsOK`,
    `funcRefsOK`) and, for the pass, that references are in range (`gcWF`) — and that the model's
    parse answered. After GC: -/
theorem after_gc_the_whole_module_emits_by_shape (m : ModuleM) (g : GcInfo) (hg : mkGcInfo m = some g)
    (hlen : m.code.length = m.funcs.length) (hw : gcWF g = true) (hs : sectionsOK m = true)
    (hb : shapesOK m = true) : (gcRoundTrip m).isSome = true := by
  obtain ⟨hp, _, _⟩ := mkGcInfo_spec m g hg
  exact after_gc_the_whole_module_emits m g hg hlen hw (sectionsOK_sound m hs)
    (bodiesWFc_of_shape (codeOf m) g.pfs hp (shapesOK_sound m hb))

/-- … and without a pass -/
theorem parse_then_emit_answers_by_shape (m : ModuleM) (pfs : List ParsedFunc)
    (hlen : m.code.length = m.funcs.length) (hp : parseCode (codeOf m) = some pfs)
    (hb : shapesOK m = true) (hs : sectionsOK m = true) (hr : funcRefsOK m = true) :
    (roundTripModule m).isSome = true :=
  plain_module_emits m pfs hlen hp (bodiesWFc_of_shape (codeOf m) pfs hp (shapesOK_sound m hb)) hs hr

example : shapesOK sample = true := by decide

end C02
end Walrus
