import Walrus.Proofs.Module

/-!
# C13 — debug names stay attached to the same entities

Model: the names part of `roundTripModule` (`Walrus/Module.lean`): `parse_name_section` through the
parse-time index maps, `emit_name_section` through the emit-time maps and the local map of
`emit_locals`, sorted by index. For every module on which the model's round trip succeeds and
whose output has a name section:
-/
namespace Walrus
namespace C13

/-- the module name is kept; every emitted table / memory / global / element / data name at
    index `i` is the name the input gave to index `i` (these spaces keep their indices); every
    emitted function name at index `j` is the name of an input function that the *same map that
    renames call targets, exports and the start function* sends to `j`. No name migrates. -/
theorem names_follow_their_entities (m o : ModuleM) (h : roundTripModule m = some o) (no : NamesM)
    (hno : o.names = some no) :
    ∃ n, m.names = some n ∧ no.module = n.module ∧
      (∀ p ∈ no.tables, lastName n.tables p.1 = some p.2) ∧
      (∀ p ∈ no.mems, lastName n.mems p.1 = some p.2) ∧
      (∀ p ∈ no.globals, lastName n.globals p.1 = some p.2) ∧
      (∀ p ∈ no.elems, lastName n.elems p.1 = some p.2) ∧
      (∀ p ∈ no.datas, lastName n.datas p.1 = some p.2) ∧
      ∃ ρ : List (Nat × Nat),
        (∀ p ∈ no.funcs, ∃ i, lastName n.funcs i = some p.2 ∧ assoc ρ i = some p.1) ∧
        (∀ (k : Nat) (e : String × String × Nat), m.exports[k]? = some e → e.2.1 = "f" →
          ∃ e' : String × String × Nat, o.exports[k]? = some e' ∧ assoc ρ e.2.2 = some e'.2.2) := by
  obtain ⟨ρ, hex, _, hnames⟩ := (roundTrip_components m o h).funcRenaming
  obtain ⟨n, hn, hmod, hf, ht, hm, hg, he, hd⟩ := hnames no hno
  refine ⟨n, hn, hmod, ?_, ?_, ?_, ?_, ?_, ρ, ?_, hex⟩
  · intro p hp; rw [ht] at hp; exact keepNames_sound _ p hp
  · intro p hp; rw [hm] at hp; exact keepNames_sound _ p hp
  · intro p hp; rw [hg] at hp; exact keepNames_sound _ p hp
  · intro p hp; rw [he] at hp; exact keepNames_sound _ p hp
  · intro p hp; rw [hd] at hp; exact keepNames_sound _ p hp
  · intro p hp; rw [hf] at hp; exact funcNamesOut_sound _ ρ p hp

/-- worked instance: two functions swapped by the size sort, their names swap with them; the name
    of the (used) second local follows it to its new slot -/
def sample : ModuleM :=
  { sigs := [([], [])],
    funcs := [0, 0],
    code := [([], [(⟨"End", []⟩, 0)]),
             ([(1, "i64"), (1, "i32")], [(⟨"LocalGet", [.ref "x" 1]⟩, 0), (⟨"Drop", []⟩, 0), (⟨"End", []⟩, 0)])],
    names := some { module := some "m", funcs := [(0, "small"), (1, "big")],
                    locals := [(1, [(0, "unused"), (1, "used")])] } }

example : (roundTripModule sample).map (·.names) =
    some (some { module := some "m", funcs := [(0, "big"), (1, "small")], locals := [(0, [(0, "used")])] }) := by
  decide

end C13
end Walrus
