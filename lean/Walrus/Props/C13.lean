import Walrus.Proofs.Module
import Walrus.Proofs.Names

/-!
# C13 — debug names stay attached to the same entities

Model: the names part of `roundTripModule` (`Walrus/Module.lean`): `parse_name_section` through the
parse-time index maps, `emit_name_section` through the emit-time maps and the local map of
`emit_locals`, sorted by index. For every module on which the model's round trip succeeds and
whose output has a name section:
-/
namespace Walrus
namespace C13

/-- the module name is kept; every emitted table / memory / global / element / data name at
    index `i` is the name the input gave to index `i` (these spaces keep their indices); every
    emitted function name at index `j` is the name of an input function that the *same map that
    renames call targets, exports and the start function* sends to `j`. No name migrates. -/
theorem names_follow_their_entities (m o : ModuleM) (h : roundTripModule m = some o) (no : NamesM)
    (hno : o.names = some no) :
    ∃ n, m.names = some n ∧ no.module = n.module ∧
      (∀ p ∈ no.tables, lastName n.tables p.1 = some p.2) ∧
      (∀ p ∈ no.mems, lastName n.mems p.1 = some p.2) ∧
      (∀ p ∈ no.globals, lastName n.globals p.1 = some p.2) ∧
      (∀ p ∈ no.elems, lastName n.elems p.1 = some p.2) ∧
      (∀ p ∈ no.datas, lastName n.datas p.1 = some p.2) ∧
      ∃ ρ : List (Nat × Nat),
        (∀ p ∈ no.funcs, ∃ i, lastName n.funcs i = some p.2 ∧ assoc ρ i = some p.1) ∧
        (∀ (k : Nat) (e : String × String × Nat), m.exports[k]? = some e → e.2.1 = "f" →
          ∃ e' : String × String × Nat, o.exports[k]? = some e' ∧ assoc ρ e.2.2 = some e'.2.2) := by
  obtain ⟨ρ, hex, _, hnames, _, _⟩ := (roundTrip_components m o h).funcRenaming
  obtain ⟨n, hn, hmod, hf, ht, hm, hg, he, hd⟩ := hnames no hno
  refine ⟨n, hn, hmod, ?_, ?_, ?_, ?_, ?_, ρ, ?_, hex⟩
  · intro p hp; rw [ht] at hp; exact keepNames_sound _ p hp
  · intro p hp; rw [hm] at hp; exact keepNames_sound _ p hp
  · intro p hp; rw [hg] at hp; exact keepNames_sound _ p hp
  · intro p hp; rw [he] at hp; exact keepNames_sound _ p hp
  · intro p hp; rw [hd] at hp; exact keepNames_sound _ p hp
  · intro p hp; rw [hf] at hp; exact funcNamesOut_sound _ ρ p hp

/-- **no name is lost**: every table / memory / global / element / data index the input names
    carries its (last) name in the output, and every named function that has an output index
    carries its name at that index -/
theorem no_name_is_lost (m o : ModuleM) (h : roundTripModule m = some o) (no : NamesM)
    (hno : o.names = some no) :
    ∃ n, m.names = some n ∧
      (∀ i s, lastName n.tables i = some s → (i, s) ∈ no.tables) ∧
      (∀ i s, lastName n.mems i = some s → (i, s) ∈ no.mems) ∧
      (∀ i s, lastName n.globals i = some s → (i, s) ∈ no.globals) ∧
      (∀ i s, lastName n.elems i = some s → (i, s) ∈ no.elems) ∧
      (∀ i s, lastName n.datas i = some s → (i, s) ∈ no.datas) ∧
      ∃ ρ : List (Nat × Nat),
        (∀ i j s, lastName n.funcs i = some s → assoc ρ i = some j → (j, s) ∈ no.funcs) ∧
        (∀ (k : Nat) (e : String × String × Nat), m.exports[k]? = some e → e.2.1 = "f" →
          ∃ e' : String × String × Nat, o.exports[k]? = some e' ∧ assoc ρ e.2.2 = some e'.2.2) := by
  obtain ⟨ρ, hex, _, hnames, _, _⟩ := (roundTrip_components m o h).funcRenaming
  obtain ⟨n, hn, _, hf, ht, hm, hg, he, hd⟩ := hnames no hno
  refine ⟨n, hn, ?_, ?_, ?_, ?_, ?_, ρ, ?_, hex⟩
  · intro i s hs; rw [ht]; exact keepNames_complete _ i s hs
  · intro i s hs; rw [hm]; exact keepNames_complete _ i s hs
  · intro i s hs; rw [hg]; exact keepNames_complete _ i s hs
  · intro i s hs; rw [he]; exact keepNames_complete _ i s hs
  · intro i s hs; rw [hd]; exact keepNames_complete _ i s hs
  · intro i j s hs hj; rw [hf]; exact funcNamesOut_complete _ ρ i j s hs hj

/-- **type names follow signatures**: a name the output gives to type index `j` was given by the
    input to a type index with the very same signature (types are de-duplicated and sorted; the
    last name given to any of the merged indices wins) -/
theorem type_names_stay_with_their_signature (m o : ModuleM) (h : roundTripModule m = some o) (no : NamesM)
    (hno : o.names = some no) :
    ∃ n, m.names = some n ∧
      ∀ p ∈ no.types, ∃ i sg, (i, p.2) ∈ n.types ∧ m.sigs[i]? = some sg ∧ o.sigs[p.1]? = some sg :=
  type_names_follow_signatures m o h no hno

/-- **local names follow their locals**: a name the output gives to slot `slot` of function `fj` is
    a name the input gave to a local of the function that is emitted at `fj`, and `slot` is the
    image of that local under the same local map the function's body was emitted with -/
theorem local_names_stay_with_their_local (m o : ModuleM) (h : roundTripModule m = some o) (no : NamesM)
    (hno : o.names = some no) :
    ∃ n pfs oc, m.names = some n ∧
      parseCode ⟨m.sigs, importedCount m "f", m.code.zip m.funcs |>.map fun p => ⟨p.2, p.1.1, p.1.2⟩⟩ = some pfs ∧
      emitCode ⟨m.sigs, importedCount m "f", m.code.zip m.funcs |>.map fun p => ⟨p.2, p.1.1, p.1.2⟩⟩ pfs = some oc ∧
      ∀ q ∈ no.locals, ∀ r ∈ q.2, ∃ (f : OutFunc) (pf : ParsedFunc) (li lid : Nat) (ty : String),
        f ∈ oc.funcs ∧ pfs[f.id - importedCount m "f"]? = some pf ∧
        pf.localTys[li]? = some (lid, ty) ∧
        (li, r.2) ∈ (n.locals.filter (·.1 = f.id)).flatMap (·.2) ∧
        assoc f.localMap lid = some r.1 ∧
        assoc ((List.range (importedCount m "f")).map (fun i => (i, i)) ++
          oc.funcs.zipIdx.map (fun p => (p.1.id, importedCount m "f" + p.2))) f.id = some q.1 :=
  local_names_follow_their_locals m o h no hno

/-- worked instance: two functions swapped by the size sort, their names swap with them; the name
    of the (used) second local follows it to its new slot -/
def sample : ModuleM :=
  { sigs := [([], [])],
    funcs := [0, 0],
    code := [([], [(⟨"End", []⟩, 0)]),
             ([(1, "i64"), (1, "i32")], [(⟨"LocalGet", [.ref "x" 1]⟩, 0), (⟨"Drop", []⟩, 0), (⟨"End", []⟩, 0)])],
    names := some { module := some "m", funcs := [(0, "small"), (1, "big")],
                    locals := [(1, [(0, "unused"), (1, "used")])] } }

example : (roundTripModule sample).map (·.names) =
    some (some { module := some "m", funcs := [(0, "big"), (1, "small")], locals := [(0, [(0, "used")])] }) := by
  decide

/-- a function named twice keeps its last name; the written map has one entry per index -/
example : (roundTripModule { sample with names := some { funcs := [(0, "a"), (0, "b"), (1, "c")] } }).map (·.names) =
    some (some { funcs := [(0, "c"), (1, "b")] }) := by
  decide

/-- **several name sections**: the later section's name for an entity wins, and an entity the later
    section does not name keeps the name the earlier section gave it (stated for globals; the other
    index spaces are the same field-wise append) -/
theorem later_name_section_wins (a b : NamesM) (i : Nat) :
    lastName (mergeNames a b).globals i = (lastName b.globals i).or (lastName a.globals i) ∧
    lastName (mergeNames a b).funcs i = (lastName b.funcs i).or (lastName a.funcs i) ∧
    lastName (mergeNames a b).tables i = (lastName b.tables i).or (lastName a.tables i) ∧
    lastName (mergeNames a b).mems i = (lastName b.mems i).or (lastName a.mems i) ∧
    lastName (mergeNames a b).elems i = (lastName b.elems i).or (lastName a.elems i) ∧
    lastName (mergeNames a b).datas i = (lastName b.datas i).or (lastName a.datas i) ∧
    lastName (mergeNames a b).types i = (lastName b.types i).or (lastName a.types i) := by
  simp [mergeNames, lastName_append]

/-- a reader that gives up does so for its own section only: whatever the first section contains
    (also a local-name entry for a missing function), the second section's global, memory, table,
    element and data names are applied as if it stood alone -/
theorem giving_up_is_per_section (nF : Nat) (s1 s2 : NamesM) (i : Nat) (x : String)
    (h : lastName (appliedNames nF s2).globals i = some x) :
    lastName (appliedNameSections nF [s1, s2]).globals i = some x := by
  simp [appliedNameSections, mergeNames, lastName_append, h]

/-- **one name per function index**: the function-name map that is written never has two entries
    for one function index — two named functions of the input never land on the same index (the
    id → index map of the emission is injective), and a function named several times keeps its
    last name only. A name map with a repeated index would be malformed. -/
theorem function_name_map_has_one_entry_per_index (m o : ModuleM) (h : roundTripModule m = some o)
    (no : NamesM) (hno : o.names = some no) : (no.funcs.map (·.1)).Nodup := by
  obtain ⟨ρ, _, _, hnames, _, hinj⟩ := (roundTrip_components m o h).funcRenaming
  obtain ⟨n, _, _, hf, _⟩ := hnames no hno
  rw [hf]
  exact funcNamesOut_nodup n.funcs ρ hinj

/-- … and so have the table, memory, global, element-segment and data-segment name maps -/
theorem other_name_maps_have_one_entry_per_index (m o : ModuleM) (h : roundTripModule m = some o)
    (no : NamesM) (hno : o.names = some no) :
    (no.tables.map (·.1)).Nodup ∧ (no.mems.map (·.1)).Nodup ∧ (no.globals.map (·.1)).Nodup ∧
    (no.elems.map (·.1)).Nodup ∧ (no.datas.map (·.1)).Nodup := by
  obtain ⟨ρ, _, _, hnames, _, _⟩ := (roundTrip_components m o h).funcRenaming
  obtain ⟨n, _, _, _, ht, hm, hg, he, hd⟩ := hnames no hno
  rw [ht, hm, hg, he, hd]
  exact ⟨keepNames_nodup _, keepNames_nodup _, keepNames_nodup _, keepNames_nodup _, keepNames_nodup _⟩

/-- one section alone: exactly `appliedNames` -/
theorem single_section (nF : Nat) (s : NamesM) : appliedNameSections nF [s] = appliedNames nF s := by
  simp [appliedNameSections, mergeNames]
  cases h : (appliedNames nF s).module <;> simp <;> (cases hh : appliedNames nF s; simp_all)

end C13
end Walrus
