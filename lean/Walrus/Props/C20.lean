import Walrus.Proofs.Module

/-!
# C20 — the round trip never escalates the features a module needs

The emitter can only *introduce* a post-MVP construct at four places: the data-count section, the
flag (encoding) of an element segment, the flag of a data segment, and the block type of a
structured instruction. Everything else is the input's own operators and types (C03, C04). For
each of the four the model is proved not to escalate; whether the resulting module validates under
every feature set under which the input validates is decided by the reference validator in the
oracle (wasmparser is not modelled).
-/
namespace Walrus
namespace C20

/-- **element segments keep an MVP-compatible encoding**: an active segment of table 0 with
    function-index items is written with flag 0 (whether table 0 was implicit or explicit in the
    input), the funcref-expression form of table 0 with flag 4, passive / declared segments keep
    their bulk-memory flags -/
theorem element_encoding_not_escalated (m o : ModuleM) (h : roundTripModule m = some o)
    (k : Nat) (e : ElemM) (he : m.elems[k]? = some e) :
    ∃ e' : ElemM, o.elems[k]? = some e' ∧
      (match e.mode, e.items with
       | .active t _, .funcs _ => t.getD 0 = 0 → e'.flag = 0
       | .active t _, .exprs ty _ => t.getD 0 = 0 → ty = "funcref" → e'.flag = 4
       | .passive, .funcs _ => e'.flag = 1
       | .declared, .funcs _ => e'.flag = 3
       | .passive, .exprs _ _ => e'.flag = 5
       | .declared, .exprs _ _ => e'.flag = 7) :=
  (roundTrip_components m o h).elems k e he

/-- **data segments**: an active segment of memory 0 is written with flag 0 (MVP), of another
    memory with flag 2 (multi-memory, which the input then already needed), a passive one with 1 -/
theorem data_encoding_not_escalated (m o : ModuleM) (h : roundTripModule m = some o)
    (k : Nat) (d : DataM) (hd : m.datas[k]? = some d) :
    ∃ d' : DataM, o.datas[k]? = some d' ∧
      (match d.mode with
       | .passive => d'.flag = 1
       | .active 0 _ => d'.flag = 0
       | .active _ _ => d'.flag = 2) :=
  (roundTrip_components m o h).dataFlags k d hd

/-- no data-count section appears out of nothing -/
theorem no_data_count_without_data (m o : ModuleM) (h : roundTripModule m = some o) (hd : m.datas = []) :
    o.dataCount = none :=
  (roundTrip_components m o h).noDataNoCount hd

/-- a data-count section, when one is written, states exactly the number of data segments of the
    input — which is the number of data segments written (a count that disagreed with the data
    section would make the output invalid under every feature set) -/
theorem data_count_is_the_segment_count (m o : ModuleM) (h : roundTripModule m = some o) (n : Nat)
    (hn : o.dataCount = some n) : n = m.datas.length ∧ o.datas.length = n :=
  (roundTrip_components m o h).dataCountExact n hn

/-- **block types**: an empty or single-result block type is re-emitted in exactly that (MVP)
    form; a type-index block type is simplified to the MVP form whenever its signature allows it -/
theorem simple_block_types_stay_simple (e : PEnv) (im : IdMaps) (bt : BT) (ty : SeqTy)
    (hbt : bt = .empty ∨ ∃ t, bt = .val t) (h : seqTyOfBt e bt = some ty) :
    blockTy im ty = some (.bt bt) := by
  rcases hbt with rfl | ⟨t, rfl⟩
  · simp [seqTyOfBt] at h; subst h; rfl
  · simp [seqTyOfBt] at h; subst h; rfl

theorem index_block_type_simplified (e : PEnv) (im : IdMaps) (idx : Nat) (rs : List String)
    (hs : e.sigs[idx]? = some ([], rs)) (hr : rs.length ≤ 1) :
    ∃ ty, seqTyOfBt e (.idx idx) = some ty ∧
      (blockTy im ty = some (.bt .empty) ∨ ∃ t, blockTy im ty = some (.bt (.val t))) := by
  match rs, hr with
  | [], _ => exact ⟨.empty, by simp [seqTyOfBt, hs], Or.inl rfl⟩
  | [r], _ => exact ⟨.val r, by simp [seqTyOfBt, hs], Or.inr ⟨r, rfl⟩⟩

/-- non-vacuity: an input that writes table 0 explicitly (flag 2) comes out with the MVP flag 0 -/
example : (roundTripModule
    { sigs := [([], [])], funcs := [0], tables := [⟨"funcref", 1, none, false⟩],
      elems := [⟨2, .active (some 0) [⟨"I32Const", [.num 0]⟩], .funcs [0]⟩],
      code := [([], [(⟨"End", []⟩, 0)])] }).map (fun o => o.elems.map (·.flag)) = some [0] := by decide

end C20
end Walrus
