import Walrus.Proofs.Offsets
import Walrus.Proofs.Body
import Walrus.Gen.CodeStart

/-!
# C11 — the code-offset map handed to custom sections is exact

Model: `Walrus/Offsets.lean` — the bookkeeping loop of `ModuleFunctions::emit` over functions whose
operators are *arbitrary byte strings* (parametric in the encoder), local declarations opaque, the
code section laid out with real LEB128 — and `Walrus/Body.lean` for the raw location map of the
`Emit` visitor.  For every module prefix, every list of emitted functions, every encoder:
each pair of the instruction map is the location of an emitted operator and the offset at which
that operator's encoding begins in the binary; default (inserted) locations occur in no pair;
each function range delimits exactly that function's code-section entry; the code-section start
is where the section's contents begin, provided what is subtracted is the length of the count
LEB — which is an obligation on the expression regenerated from the source on every run.
-/
namespace Walrus
namespace C11

def moduleBytes (pre : List UInt8) (fs : List EmittedFunc) : List UInt8 := pre ++ codeSectionBytes fs

def header (fs : List EmittedFunc) : List UInt8 :=
  [10] ++ lebBytes (lebBytes fs.length ++ (fs.map EmittedFunc.entry).flatten).length ++ lebBytes fs.length

theorem moduleBytes_split (pre : List UInt8) (fs : List EmittedFunc) :
    moduleBytes pre fs = (pre ++ header fs) ++ (fs.map EmittedFunc.entry).flatten := by
  simp [moduleBytes, header, codeSectionBytes, List.append_assoc]

theorem firstEntry_eq (pre : List UInt8) (fs : List EmittedFunc) :
    pre.length + (codeSectionBytes fs).length - (fs.map EmittedFunc.entry).flatten.length = (pre ++ header fs).length := by
  have := congrArg List.length (moduleBytes_split pre fs)
  simp only [moduleBytes, List.length_append] at this ⊢
  omega

def WellIndexed (fs : List EmittedFunc) : Prop := ∀ f ∈ fs, ∀ p ∈ f.marks, p.2 < f.ops.length

/-- **Every (input location, output offset) pair points at the first byte of the operator that
    carries that location**, and inserted instructions (default location) appear in no pair. -/
theorem map_entries_point_at_their_instruction (pre : List UInt8) (fs : List EmittedFunc) (fix : Nat)
    (hw : WellIndexed fs) :
    ∀ p ∈ (codeTransform pre.length fs fix).instructionMap,
      p.1 ≠ defaultLoc ∧
      ∃ f ∈ fs, ∃ k, ∃ (hk : k < f.ops.length), (p.1, k) ∈ f.marks ∧
        ∃ rest, (moduleBytes pre fs).drop p.2 = f.ops[k] ++ rest := by
  intro p hp
  simp only [codeTransform] at hp
  rw [firstEntry_eq] at hp
  have := offsetLoop_sound (moduleBytes pre fs) fs fs (pre ++ header fs) [] []
    (fun f hf => hf) hw ⟨[], by rw [moduleBytes_split]; simp⟩ (by intro p hp; cases hp) p hp
  obtain ⟨f, hf, k, hk, hm, hnd, rest, hr⟩ := this
  exact ⟨hnd, f, hf, k, hk, hm, rest, hr⟩

/-- **Each reported function range delimits exactly that function's entry** (size prefix + body). -/
theorem ranges_delimit_entries (pre : List UInt8) (fs : List EmittedFunc) (fix : Nat) :
    ∀ r ∈ (codeTransform pre.length fs fix).functionRanges,
      ∃ f ∈ fs, f.id = r.1 ∧ r.2.1 ≤ r.2.2 ∧
        ((moduleBytes pre fs).drop r.2.1).take (r.2.2 - r.2.1) = f.entry := by
  intro r hr
  simp only [codeTransform] at hr
  rw [firstEntry_eq] at hr
  have hr' := mem_sortRanges hr
  exact offsetLoop_ranges_sound (moduleBytes pre fs) fs fs (pre ++ header fs) [] []
    (fun f hf => hf) ⟨[], by rw [moduleBytes_split]; simp⟩ (by intro p hp; cases hp) r hr'

/-- **The reported code-section start is where the section's contents (function count, then the
    entries) begin** — when the length of the count LEB is what is subtracted. -/
theorem code_start_is_content_start (pre : List UInt8) (fs : List EmittedFunc) :
    (moduleBytes pre fs).drop (codeTransform pre.length fs (lebLen fs.length)).codeSectionStart =
      lebBytes fs.length ++ (fs.map EmittedFunc.entry).flatten := by
  simp only [codeTransform]
  rw [firstEntry_eq]
  have hl : (pre ++ header fs).length - lebLen fs.length =
      (pre ++ ([10] ++ lebBytes (lebBytes fs.length ++ (fs.map EmittedFunc.entry).flatten).length)).length := by
    simp [header, lebBytes_length]; omega
  rw [hl]
  have : moduleBytes pre fs = (pre ++ ([10] ++ lebBytes (lebBytes fs.length ++ (fs.map EmittedFunc.entry).flatten).length))
      ++ (lebBytes fs.length ++ (fs.map EmittedFunc.entry).flatten) := by
    simp [moduleBytes, codeSectionBytes, List.append_assoc]
  rw [this, List.drop_left]

/-- obligation on the source (regenerated on every run): `code_section_start` is computed by
    subtracting the length of the function-count LEB from the offset of the first entry -/
theorem source_subtracts_count_leb_length :
    Gen.codeSectionStartExprs = ["code_section_start_offset - function_count_leb_len"] := by decide

/-- with a two-byte constant instead, the start is right only when the count LEB has two bytes:
    counterexample with one function (what the unrepaired code did) -/
example : (codeTransform 8 [⟨0, [0], [[11]], [(20, 0)]⟩] 2).codeSectionStart = 9 ∧
          (codeTransform 8 [⟨0, [0], [[11]], [(20, 0)]⟩] (lebLen 1)).codeSectionStart = 10 := by decide

/-- the raw map of the `Emit` visitor indexes operators that exist (so `WellIndexed` holds for
    everything `emitBody` produces) -/
theorem marksOf_lt (base : Nat) (ops : List (Nat × Op)) : ∀ p ∈ marksOf base ops, base ≤ p.2 ∧ p.2 < base + ops.length := by
  induction ops generalizing base with
  | nil => intro p hp; simp [marksOf] at hp
  | cons x xs ih =>
    obtain ⟨l, o⟩ := x
    intro p hp
    simp only [marksOf, List.mem_cons] at hp
    rcases hp with rfl | hp
    · simp
    · have := ih (base + 1) p hp
      simp only [List.length_cons]; omega

/-- non-vacuity: two functions, byte layout and map computed by evaluation -/
example :
    let fs : List EmittedFunc := [⟨5, [0], [[65, 1], [26], [11]], [(100, 0), (102, 1), (103, 2)]⟩,
                                  ⟨6, [1, 2, 127], [[32, 0], [11]], [(90, 0), (0xffffffff, 1)]⟩]
    (codeTransform 8 fs (lebLen 2)).instructionMap = [(90, 21), (100, 13), (102, 15), (103, 16)] ∧
    (codeTransform 8 fs (lebLen 2)).functionRanges = [(5, 11, 17), (6, 17, 24)] ∧
    (codeTransform 8 fs (lebLen 2)).codeSectionStart = 10 := by decide

end C11
end Walrus
