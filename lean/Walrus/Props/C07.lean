import Walrus.Proofs.Gc
import Walrus.Proofs.GcFuel
import Walrus.Proofs.GcSweep

/-!
# C07 — GC is precise and idempotent

Model: `Walrus/Gc.lean` (`Used::new` as a worklist over the successor relation the code scans,
`gc::run` + emission as `gcRoundTrip`), predicted exactly against the real pass on generated
modules.  Proved: the worklist computes *exactly* the set reachable from the roots — nothing
unreachable is kept (precision), nothing reachable is lost — for every successor relation and
every set of roots; the only other element of the used set is the documented residue (one memory
when data segments are kept and no memory is used).  Idempotence and "emission writes exactly the
used entities" are decided by the oracle (bytes after one and two runs; independent reachability
over the emitted binary) and by the exact-prediction correspondence.
-/
namespace Walrus
namespace C07

/-- **the used set is exactly what is reachable from the roots** (when the worklist has run to
    completion, which the driver checks on every case) -/
theorem used_is_exactly_reachable (succ : Ent → List Ent) (roots : List Ent) (fuel : Nat)
    (hdone : (closureSt succ fuel roots []).1 = []) (x : Ent) :
    x ∈ closure succ fuel roots [] ↔ Reach succ roots x :=
  closure_is_reach succ roots fuel hdone x

/-- … instantiated with walrus's roots and successor relation; the residue is the only addition -/
theorem usedSet_precise (g : GcInfo) (hdone : usedFinished g = true) (x : Ent) (hx : x ∈ usedSet g) :
    Reach (gcSucc g) (gcRoots g).eraseDups x ∨ x = ("m", 0) := by
  unfold usedSet at hx
  simp only at hx
  have hd : (closureSt (gcSucc g) (universeSize g * universeSize g + 16) (gcRoots g).eraseDups []).1 = [] := by
    simpa [usedFinished] using hdone
  split at hx
  · rcases List.mem_append.1 hx with h | h
    · exact Or.inl ((closure_is_reach _ _ _ hd x).1 h)
    · simp at h; exact Or.inr h
  · exact Or.inl ((closure_is_reach _ _ _ hd x).1 hx)

/-- nothing reachable is dropped -/
theorem usedSet_complete (g : GcInfo) (hdone : usedFinished g = true) (x : Ent)
    (hr : Reach (gcSucc g) (gcRoots g).eraseDups x) : x ∈ usedSet g := by
  have hd : (closureSt (gcSucc g) (universeSize g * universeSize g + 16) (gcRoots g).eraseDups []).1 = [] := by
    simpa [usedFinished] using hdone
  have := (closure_is_reach _ _ _ hd x).2 hr
  unfold usedSet
  simp only
  split
  · exact List.mem_append_left _ this
  · exact this

/-- **the worklist terminates** on every module whose references are in range (`gcWF`: roots and
    successor edges lead to entities that exist — what validation guarantees; the driver evaluates it
    on every case): it empties its stack within `|universe|` iterations, which the model's fuel
    covers.  Nothing is pushed twice, every iteration marks one new entity. -/
theorem worklist_terminates (g : GcInfo) (h : gcWF g = true) : usedFinished g = true :=
  gcWF_finishes g h

/-- … so for every such module the used set is exactly the reachable set plus the residue -/
theorem usedSet_is_reachable_set (g : GcInfo) (h : gcWF g = true) (x : Ent) :
    x ∈ usedSet g ↔ (Reach (gcSucc g) (gcRoots g).eraseDups x ∨ (x ∈ usedSet g ∧ x = ("m", 0))) := by
  constructor
  · intro hx
    rcases usedSet_precise g (gcWF_finishes g h) x hx with h1 | h1
    · exact Or.inl h1
    · exact Or.inr ⟨hx, h1⟩
  · rintro (h1 | h1)
    · exact usedSet_complete g (gcWF_finishes g h) x h1
    · exact h1.1

/-- **idempotence of the marking**: after the sweep every surviving entity still has the successors
    it had (hypothesis: the successor relation of the swept module agrees with the original one on
    everything reachable), so a second run of the worklist marks exactly the same set — nothing
    more can be deleted and nothing is resurrected -/
theorem second_run_marks_the_same_set (succ succ' : Ent → List Ent) (roots : List Ent)
    (hs : ∀ x, Reach succ roots x → succ' x = succ x) (x : Ent) :
    Reach succ' roots x ↔ Reach succ roots x := by
  constructor
  · intro h
    induction h with
    | root y hy => exact Reach.root y hy
    | step y z _ hz ih => exact Reach.step y z ih (by rw [← hs y ih]; exact hz)
  · intro h
    induction h with
    | root y hy => exact Reach.root y hy
    | step y z hy hz ih => exact Reach.step y z ih (by rw [hs y hy]; exact hz)

/-- non-vacuity: an unreachable function and global are dropped, what the export needs is kept -/
def sample : ModuleM :=
  { sigs := [([], [])], funcs := [0, 0, 0],
    globals := [(⟨"i32", true, false⟩, [⟨"I32Const", [.num 1]⟩]), (⟨"i32", true, false⟩, [⟨"I32Const", [.num 2]⟩])],
    exports := [("run", "f", 0)],
    code := [([], [(⟨"Call", [.ref "f" 2]⟩, 0), (⟨"End", []⟩, 0)]),
             ([], [(⟨"GlobalGet", [.ref "g" 0]⟩, 0), (⟨"Drop", []⟩, 0), (⟨"End", []⟩, 0)]),
             ([], [(⟨"GlobalGet", [.ref "g" 1]⟩, 0), (⟨"Drop", []⟩, 0), (⟨"End", []⟩, 0)])] }

example : (mkGcInfo sample).map (fun g => (usedFinished g, (usedSet g).filter (·.1 ≠ "y"))) =
    some (true, [("f", 0), ("f", 2), ("g", 1)]) := by decide
example : (mkGcInfo sample).map gcWF = some true := by decide
example : (gcRoundTrip sample).map (fun o => (o.funcs.length, o.globals.length, o.exports)) =
    some (2, 1, [("run", "f", 1)]) := by decide

/-- **the emitted module holds nothing but used entities**: in every index space the output of
    `parse → gc::run → emit` is the used part of the input — the used tables and memories in order,
    one global / element segment / data segment / function for each used one, and no other. -/
theorem output_is_the_used_part_of_the_input (m : ModuleM) (g : GcInfo) (hg : mkGcInfo m = some g) (o : ModuleM)
    (h : gcRoundTrip m = some o) :
    o.tables = (m.tables.zipIdx.filter fun p => decide (("t", g.nit + p.2) ∈ usedSet g)).map (·.1) ∧
    o.mems = (m.mems.zipIdx.filter fun p => decide (("m", g.nim + p.2) ∈ usedSet g)).map (·.1) ∧
    o.globals.length = (m.globals.zipIdx.filter fun p => decide (("g", g.nig + p.2) ∈ usedSet g)).length ∧
    o.elems.length = (m.elems.zipIdx.filter fun p => decide (("e", p.2) ∈ usedSet g)).length ∧
    o.datas.length = (m.datas.zipIdx.filter fun p => decide (("d", p.2) ∈ usedSet g)).length ∧
    o.funcs.length = o.code.length :=
  sweep_keeps_exactly_the_used m g hg o h

/-- … and a used entity is reachable from the roots, the one residue memory aside: together,
    nothing unreachable is emitted (for every module whose references are in range) -/
theorem used_entity_is_reachable (g : GcInfo) (hw : gcWF g = true) (x : Ent) (hx : x ∈ usedSet g)
    (hne : x ≠ ("m", 0)) : Reach (gcSucc g) (gcRoots g).eraseDups x :=
  (usedSet_precise g (gcWF_finishes g hw) x hx).resolve_right hne

end C07
end Walrus
