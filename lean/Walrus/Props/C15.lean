import Walrus.Proofs.Body
import Walrus.Builder
import Walrus.Proofs.Locals

/-!
# C15 — IR built through the builder API is emitted faithfully

Model: `Walrus/Builder.lean` (dangling_instr_seq / instr / instr_at; block, loop_, if_else and the
`_at` variants are compositions of these), `Walrus/Body.lean` (the `Emit` visitor over
`dfs_in_order`, `emit_locals`).  For *every* builder history whose resulting sequence graph
unfolds to a finite tree: the emitted body is exactly the structural in-order flattening of
that tree (`flattenL`), branch depths denote the intended enclosing construct, positional
insertion is list insertion, fresh sequences never disturb existing ones, parameters keep their
positions and the declared local groups account for exactly the used non-parameter locals.
-/
namespace Walrus
namespace C15

/-- **Emitted body = in-order flattening of the built tree**, for any builder history `h`:
    same instructions in the same order, correct nesting and block types. -/
theorem builder_emit_is_flatten (m : IdMaps) (h : List BOp) (st : BState) (hrun : brun [] h = some st)
    (entry : Nat) (ty : LSeqTy) (t : TL LSeqTy LInstr)
    (he : st.toArena.get? entry = some (ty, t.toList)) (hv : ViewL st.toArena t)
    (ops : List (Nat × Op)) (hf : flattenL m [entry] t = some ops) :
    ∃ n, ∀ fuel, n ≤ fuel → (emitBodyFuel m st.toArena fuel entry).map (·.1) =
      some (ops.map (·.2) ++ [⟨"End", []⟩]) := by
  obtain ⟨n, hn⟩ := emitBody_eq_flatten m st.toArena entry ty t he hv ops hf
  exact ⟨n, fun fuel hf => by rw [hn fuel hf]; simp⟩

theorem idxOf_le {l : List Nat} {s k : Nat} (h : l[k]? = some s) : l.idxOf s ≤ k := by
  induction l generalizing k with
  | nil => simp at h
  | cons x xs ih =>
    rw [List.idxOf_cons]
    by_cases hx : x = s
    · simp [hx]
    · have hb : (x == s) = false := by simpa using hx
      cases k with
      | zero => simp at h; exact absurd h hx
      | succ k =>
        have := ih (k := k) (by simpa using h)
        simp only [hb, cond_false]; omega

theorem getElem?_idxOf {l : List Nat} {s : Nat} (h : l.idxOf s < l.length) : l[l.idxOf s]? = some s := by
  induction l with
  | nil => simp at h
  | cons x xs ih =>
    rw [List.idxOf_cons] at h ⊢
    by_cases hx : x = s
    · simp [hx]
    · have hb : (x == s) = false := by simpa using hx
      simp only [hb, cond_false] at h ⊢
      simp only [List.length_cons, Nat.add_lt_add_iff_right] at h
      simpa using ih h

/-- a branch is emitted with the depth at which its target sits among the enclosing constructs:
    position `d` holds the target, and no construct nearer than `d` is the target -/
theorem branch_depth_reaches_target (ctx : List Nat) (s d : Nat) (h : branchTarget ctx s = some d) :
    ctx[d]? = some s ∧ ∀ k, k < d → ctx[k]? ≠ some s := by
  unfold branchTarget at h
  simp only at h
  split at h
  · rename_i hlt
    cases h
    exact ⟨getElem?_idxOf hlt, fun k hk hc => by have := idxOf_le hc; omega⟩
  · cases h

/-- `instr_at(pos, x)`: `x` ends up at position `pos`, everything else keeps its relative order -/
theorem insertAt_is_list_insertion {α : Type} (l l' : List α) (pos : Nat) (x : α)
    (h : insertAtList l pos x = some l') :
    l'[pos]? = some x ∧ l'.eraseIdx pos = l ∧ pos ≤ l.length := by
  unfold insertAtList at h
  split at h
  · rename_i hp
    cases h
    refine ⟨?_, ?_, hp⟩
    · simp [List.getElem?_append_right, Nat.min_eq_left hp]
    · have hl : (l.take pos).length = pos := by simp [Nat.min_eq_left hp]
      rw [List.eraseIdx_append_of_length_le (by omega)]
      simp [hl]
  · cases h

/-- … and it panics exactly when `pos > len` -/
theorem insertAt_panics_iff {α : Type} (l : List α) (pos : Nat) (x : α) :
    insertAtList l pos x = none ↔ l.length < pos := by
  unfold insertAtList
  split <;> simp <;> omega

/-- `dangling_instr_seq` hands out the next arena id and leaves every existing sequence alone -/
theorem dangling_fresh (st : BState) (ty : SeqTy) :
    bstep st (.dangling ty) = some (st ++ [(ty, [])], some st.length) ∧
    ∀ k, k < st.length → (st ++ [(ty, [])])[k]? = st[k]? := by
  refine ⟨rfl, fun k hk => ?_⟩
  simp [List.getElem?_append_left hk]

/-- appending / inserting touches only the addressed sequence -/
theorem push_frame (st st' : BState) (seq : Nat) (i : BInstr) (o : Option Nat)
    (h : bstep st (.push seq i) = some (st', o)) :
    st'.length = st.length ∧ ∀ k, k ≠ seq → st'[k]? = st[k]? := by
  simp only [bstep, modifySeq, Option.map_eq_some_iff] at h
  obtain ⟨s2, hs2, heq⟩ := h
  cases hget : st[seq]? with
  | none => simp [hget] at hs2
  | some p =>
    simp only [hget, Option.map_some, Option.some.injEq] at hs2
    cases heq
    subst hs2
    exact ⟨by simp, fun k hk => by simp [List.getElem?_set_ne (Ne.symm hk)]⟩

/-! ### `emit_locals` -/

theorem assoc_zipIdx_args (args : List Nat) (rest : List (Nat × Nat)) (hn : args.Nodup) (k : Nat) (hk : k < args.length) :
    assoc (args.zipIdx.map (fun p => (p.1, p.2)) ++ rest) args[k] = some k := by
  have key : ∀ (l : List Nat) (base : Nat) (rest : List (Nat × Nat)), l.Nodup → ∀ k (hk : k < l.length),
      assoc ((l.zipIdx base).map (fun p => (p.1, p.2)) ++ rest) l[k] = some (base + k) := by
    intro l
    induction l with
    | nil => intro _ _ _ k hk; simp at hk
    | cons x xs ih =>
      intro base rest hnd k hk
      simp only [List.zipIdx_cons, List.map_cons, List.cons_append, assoc]
      cases k with
      | zero => simp
      | succ k =>
        have hk' : k < xs.length := by simpa using hk
        have hx : x ≠ xs[k] := by
          intro e
          have := (List.nodup_cons.1 hnd).1
          exact this (e ▸ List.getElem_mem _)
        simp only [List.getElem_cons_succ, hx, if_false]
        have := ih (base + 1) rest (List.nodup_cons.1 hnd).2 k hk'
        rw [this]; congr 1; omega
  simpa using key args 0 rest hn k hk

/-- parameters are assigned their positions -/
theorem params_at_their_positions (args : List Nat) (tyOf : Nat → String) (used : List Nat)
    (hn : args.Nodup) (k : Nat) (hk : k < args.length) :
    assoc (emitLocals args tyOf used).2 args[k] = some k := by
  simp only [emitLocals]
  exact assoc_zipIdx_args args _ hn k hk

/-- **the local map is total**: every parameter and every local the body mentions has an index -/
theorem every_used_local_has_an_index (args : List Nat) (tyOf : Nat → String) (used : List Nat) (l : Nat)
    (h : l ∈ args ∨ l ∈ used) : ∃ i, assoc (emitLocals args tyOf used).2 l = some i :=
  local_map_total args tyOf used l h

/-- **the local map is injective**: two locals never share an emitted index -/
theorem no_two_locals_share_an_index (args : List Nat) (tyOf : Nat → String) (used : List Nat) (a b i : Nat)
    (ha : assoc (emitLocals args tyOf used).2 a = some i) (hb : assoc (emitLocals args tyOf used).2 b = some i) :
    a = b :=
  local_map_injective args tyOf used a b i ha hb

/-- **every local lands in a slot of its own type**: a parameter at its position; any other local
    after the parameters, at an index whose declaration (the expanded `(count, type)` groups that
    are written into the body) is the local's type — for the seven value types (`knownTy`) -/
theorem every_local_lands_in_a_slot_of_its_type (args : List Nat) (tyOf : Nat → String) (used : List Nat)
    (hk : ∀ l ∈ used, knownTy (tyOf l)) (l i : Nat) (h : assoc (emitLocals args tyOf used).2 l = some i) :
    (l ∈ args ∧ args[i]? = some l) ∨
    (l ∉ args ∧ l ∈ used ∧ args.length ≤ i ∧
      (expandLocals (emitLocals args tyOf used).1)[i - args.length]? = some (tyOf l)) := by
  rcases local_index_spec args tyOf used hk l i h with h | ⟨h1, h2, h3, _, h5⟩
  · exact Or.inl h
  · exact Or.inr ⟨h1, h2, h3, h5⟩

/-- the declared groups are exactly the types of the used non-parameter locals in emission order -/
theorem declared_locals_are_the_used_ones (args : List Nat) (tyOf : Nat → String) (used : List Nat)
    (hk : ∀ l ∈ used, knownTy (tyOf l)) :
    expandLocals (emitLocals args tyOf used).1 = (emitOrder args tyOf used).map tyOf ∧
    ∀ x, x ∈ emitOrder args tyOf used ↔ x ∈ used ∧ x ∉ args :=
  ⟨emitLocals_decls args tyOf used hk, emitOrder_mem args tyOf used⟩

example : knownTy "i32" ∧ knownTy "externref" ∧ ¬ knownTy "?" := by unfold knownTy; decide

/-- non-vacuity and a worked instance: two parameters, three used locals of two types -/
example : emitLocals [10, 11] (fun l => if l = 12 then "f64" else if l = 14 then "i32" else "f64") [10, 12, 13, 14]
    = ([(1, "i32"), (2, "f64")], [(10, 0), (11, 1), (14, 2), (12, 3), (13, 4)]) := by decide

example : (brun [] [.dangling .empty, .push 0 (.leaf ⟨"I32Const", [.num 1]⟩), .dangling .empty,
    .push 1 (.br 0), .insertAt 0 1 (.block 1), .insertAt 0 1 (.leaf ⟨"Drop", []⟩)]).map
      (fun st => (emitBodyFuel {} st.toArena 20 0).map (·.1))
    = some (some [⟨"I32Const", [.num 1]⟩, ⟨"Drop", []⟩, ⟨"Block", [.bt .empty]⟩, ⟨"Br", [.ref "l" 1]⟩,
                  ⟨"End", []⟩, ⟨"End", []⟩]) := by decide

end C15
end Walrus
