import Walrus.Proofs.Body
import Walrus.Code

/-!
# C03 — every instruction survives the round trip with exact opcode and immediates
(first stage: emission side proved; parse side carried by exact-prediction correspondence)
-/
namespace Walrus
namespace C03

/-- the emitted body of any parsed function is the structural flattening of its tree view:
    block structure, block types, branch depths and every leaf operator (name and immediates
    unchanged, entity operands through the id→index maps) -/
theorem emitted_body_is_flatten (m : IdMaps) (seqs : List PSeq) (entry : Nat) (ty : LSeqTy)
    (t : TL LSeqTy LInstr) (he : (PSeqs.toArena seqs).get? entry = some (ty, t.toList))
    (hv : ViewL (PSeqs.toArena seqs) t) (ops : List (Nat × Op)) (hf : flattenL m [entry] t = some ops) :
    ∃ n, ∀ fuel, n ≤ fuel → (emitBodyFuel m (PSeqs.toArena seqs) fuel entry).map (·.1) =
      some (ops.map (·.2) ++ [⟨"End", []⟩]) := by
  obtain ⟨n, hn⟩ := emitBody_eq_flatten m _ entry ty t he hv ops hf
  exact ⟨n, fun fuel hf => by rw [hn fuel hf]; simp⟩

/-- a leaf operator is emitted with its name and every non-entity immediate untouched -/
theorem leaf_name_and_immediates_kept (m : IdMaps) (ctx : List Nat) (op o : Op)
    (h : emitPlain m ctx (.leaf op) = some o) :
    ∃ args, o = ⟨op.name, args⟩ ∧ mapArgs m op.args = some args := by
  simp only [emitPlain, Option.map_eq_some_iff] at h
  obtain ⟨a, ha, rfl⟩ := h
  exact ⟨a, rfl, ha⟩

theorem mapArgs_keeps_immediates (m : IdMaps) : ∀ (args out : List Arg), mapArgs m args = some out →
    args.length = out.length ∧ ∀ (k : Nat) (s : String), args[k]? = some (Arg.imm s) → out[k]? = some (Arg.imm s)
  | [], out, h => by simp [mapArgs] at h; subst h; simp
  | .ref sp id :: r, out, h => by
      simp only [mapArgs] at h
      cases h1 : m.get sp id with
      | none => simp [h1] at h
      | some ix =>
        cases h2 : mapArgs m r with
        | none => simp [h1, h2] at h
        | some r' =>
          simp only [h1, h2, Option.some.injEq] at h
          subst h
          have ih := mapArgs_keeps_immediates m r r' h2
          refine ⟨by simp [ih.1], fun k s hk => ?_⟩
          cases k with
          | zero => simp at hk
          | succ k => simpa using ih.2 k s (by simpa using hk)
  | .imm s0 :: r, out, h => by
      simp only [mapArgs, Option.map_eq_some_iff] at h
      obtain ⟨r', h2, rfl⟩ := h
      have ih := mapArgs_keeps_immediates m r r' h2
      refine ⟨by simp [ih.1], fun k s hk => ?_⟩
      cases k with
      | zero => simpa using hk
      | succ k => simpa using ih.2 k s (by simpa using hk)
  | .num n0 :: r, out, h => by
      simp only [mapArgs, Option.map_eq_some_iff] at h
      obtain ⟨r', h2, rfl⟩ := h
      have ih := mapArgs_keeps_immediates m r r' h2
      refine ⟨by simp [ih.1], fun k s hk => ?_⟩
      cases k with
      | zero => simp at hk
      | succ k => simpa using ih.2 k s (by simpa using hk)
  | .bt s0 :: r, out, h => by
      simp only [mapArgs, Option.map_eq_some_iff] at h
      obtain ⟨r', h2, rfl⟩ := h
      have ih := mapArgs_keeps_immediates m r r' h2
      refine ⟨by simp [ih.1], fun k s hk => ?_⟩
      cases k with
      | zero => simp at hk
      | succ k => simpa using ih.2 k s (by simpa using hk)

/-- the only rewrite the parse applies to immediates: a memarg offset is reduced modulo 2^32
    (open finding D5); for offsets below 2^32 — all offsets of 32-bit memories — it is the identity -/
def OffsetsBelow2_32 : List Arg → Prop
  | .num _ :: .num o :: .ref "m" _ :: r => o < 4294967296 ∧ OffsetsBelow2_32 r
  | _ :: r => OffsetsBelow2_32 r
  | [] => True

theorem wrapOffsets_id (args : List Arg) (h : OffsetsBelow2_32 args) : wrapOffsets args = args := by
  fun_induction wrapOffsets args with
  | case1 a o k r ih =>
    simp only [OffsetsBelow2_32] at h
    rw [ih h.2, Nat.mod_eq_of_lt h.1]
  | case2 x r hne ih =>
    have : OffsetsBelow2_32 r := by
      unfold OffsetsBelow2_32 at h
      split at h
      · rename_i heq
        injection heq with h1 h2
        exact absurd h2 (hne _ _ _ _ h1)
      · rename_i heq
        injection heq with h1 h2
        subst h2; exact h
      · rename_i heq; cases heq
    rw [ih this]
  | case3 => rfl

/-- witness of the open finding in the model: offset 2^32+4 on a memory operand comes out as 4 -/
example : wrapOffsets [.num 2, .num 4294967300, .ref "m" 1] = [.num 2, .num 4, .ref "m" 1] := by decide

/-- worked instance of the whole code round trip: nop and dead code dropped, the `if` completed
    with an empty `else`, the larger function emitted first and the call retargeted accordingly -/
example : (roundTripCode ⟨[([], []), (["i32"], ["i32"])], 0,
    [⟨0, [], [(⟨"Call", [.ref "f" 1]⟩, 1), (⟨"End", []⟩, 2)]⟩,
     ⟨1, [(1, "i64")], [(⟨"LocalGet", [.ref "x" 0]⟩, 5), (⟨"Block", [.bt .empty]⟩, 6), (⟨"Nop", []⟩, 7), (⟨"Br", [.ref "l" 0]⟩, 8),
                        (⟨"I32Const", [.num 3]⟩, 9), (⟨"End", []⟩, 10), (⟨"I32Const", [.num 1]⟩, 11), (⟨"If", [.bt .empty]⟩, 12),
                        (⟨"End", []⟩, 13), (⟨"Drop", []⟩, 14), (⟨"End", []⟩, 15)]⟩]⟩).map (fun o => (o.order, o.funcs.map (·.ops)))
  = some ([1, 0], [[⟨"LocalGet", [.ref "x" 0]⟩, ⟨"Block", [.bt .empty]⟩, ⟨"Br", [.ref "l" 0]⟩, ⟨"End", []⟩, ⟨"I32Const", [.num 1]⟩,
                    ⟨"If", [.bt .empty]⟩, ⟨"Else", []⟩, ⟨"End", []⟩, ⟨"Drop", []⟩, ⟨"End", []⟩],
                   [⟨"Call", [.ref "f" 0]⟩, ⟨"End", []⟩]]) := by decide

end C03
end Walrus
