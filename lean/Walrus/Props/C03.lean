import Walrus.Proofs.Body
import Walrus.Proofs.ParseTree
import Walrus.Proofs.ParseView
import Walrus.Proofs.RoundTripBody
import Walrus.Proofs.ParseConverse
import Walrus.Code

/-!
# C03 — every instruction survives the round trip with exact opcode and immediates
(emission side and parse side proved on the model: parse ∘ emit of any well-nested body is the
flattening of the tree computed from the source; the model is tied to the code by exact prediction)
-/
namespace Walrus
namespace C03

/-- the emitted body of any parsed function is the structural flattening of its tree view:
    block structure, block types, branch depths and every leaf operator (name and immediates
    unchanged, entity operands through the id→index maps) -/
theorem emitted_body_is_flatten (m : IdMaps) (seqs : List PSeq) (entry : Nat) (ty : LSeqTy)
    (t : TL LSeqTy LInstr) (he : (PSeqs.toArena seqs).get? entry = some (ty, t.toList))
    (hv : ViewL (PSeqs.toArena seqs) t) (ops : List (Nat × Op)) (hf : flattenL m [entry] t = some ops) :
    ∃ n, ∀ fuel, n ≤ fuel → (emitBodyFuel m (PSeqs.toArena seqs) fuel entry).map (·.1) =
      some (ops.map (·.2) ++ [⟨"End", []⟩]) := by
  obtain ⟨n, hn⟩ := emitBody_eq_flatten m _ entry ty t he hv ops hf
  exact ⟨n, fun fuel hf => by rw [hn fuel hf]; simp⟩

/-- a leaf operator is emitted with its name and every non-entity immediate untouched -/
theorem leaf_name_and_immediates_kept (m : IdMaps) (ctx : List Nat) (op o : Op)
    (h : emitPlain m ctx (.leaf op) = some o) :
    ∃ args, o = ⟨op.name, args⟩ ∧ mapArgs m op.args = some args := by
  simp only [emitPlain, Option.map_eq_some_iff] at h
  obtain ⟨a, ha, rfl⟩ := h
  exact ⟨a, rfl, ha⟩

theorem mapArgs_keeps_immediates (m : IdMaps) : ∀ (args out : List Arg), mapArgs m args = some out →
    args.length = out.length ∧ ∀ (k : Nat) (s : String), args[k]? = some (Arg.imm s) → out[k]? = some (Arg.imm s)
  | [], out, h => by simp [mapArgs] at h; subst h; simp
  | .ref sp id :: r, out, h => by
      simp only [mapArgs] at h
      cases h1 : m.get sp id with
      | none => simp [h1] at h
      | some ix =>
        cases h2 : mapArgs m r with
        | none => simp [h1, h2] at h
        | some r' =>
          simp only [h1, h2, Option.some.injEq] at h
          subst h
          have ih := mapArgs_keeps_immediates m r r' h2
          refine ⟨by simp [ih.1], fun k s hk => ?_⟩
          cases k with
          | zero => simp at hk
          | succ k => simpa using ih.2 k s (by simpa using hk)
  | .imm s0 :: r, out, h => by
      simp only [mapArgs, Option.map_eq_some_iff] at h
      obtain ⟨r', h2, rfl⟩ := h
      have ih := mapArgs_keeps_immediates m r r' h2
      refine ⟨by simp [ih.1], fun k s hk => ?_⟩
      cases k with
      | zero => simpa using hk
      | succ k => simpa using ih.2 k s (by simpa using hk)
  | .num n0 :: r, out, h => by
      simp only [mapArgs, Option.map_eq_some_iff] at h
      obtain ⟨r', h2, rfl⟩ := h
      have ih := mapArgs_keeps_immediates m r r' h2
      refine ⟨by simp [ih.1], fun k s hk => ?_⟩
      cases k with
      | zero => simp at hk
      | succ k => simpa using ih.2 k s (by simpa using hk)
  | .bt s0 :: r, out, h => by
      simp only [mapArgs, Option.map_eq_some_iff] at h
      obtain ⟨r', h2, rfl⟩ := h
      have ih := mapArgs_keeps_immediates m r r' h2
      refine ⟨by simp [ih.1], fun k s hk => ?_⟩
      cases k with
      | zero => simp at hk
      | succ k => simpa using ih.2 k s (by simpa using hk)

/-- the only rewrite the parse applies to immediates: a memarg offset is reduced modulo 2^32
    (open finding D5); for offsets below 2^32 — all offsets of 32-bit memories — it is the identity -/
def OffsetsBelow2_32 : List Arg → Prop
  | .num _ :: .num o :: .ref "m" _ :: r => o < 4294967296 ∧ OffsetsBelow2_32 r
  | _ :: r => OffsetsBelow2_32 r
  | [] => True

theorem wrapOffsets_id (args : List Arg) (h : OffsetsBelow2_32 args) : wrapOffsets args = args := by
  fun_induction wrapOffsets args with
  | case1 a o k r ih =>
    simp only [OffsetsBelow2_32] at h
    rw [ih h.2, Nat.mod_eq_of_lt h.1]
  | case2 x r hne ih =>
    have : OffsetsBelow2_32 r := by
      unfold OffsetsBelow2_32 at h
      split at h
      · rename_i heq
        injection heq with h1 h2
        exact absurd h2 (hne _ _ _ _ h1)
      · rename_i heq
        injection heq with h1 h2
        subst h2; exact h
      · rename_i heq; cases heq
    rw [ih this]
  | case3 => rfl

/-- witness of the open finding in the model: offset 2^32+4 on a memory operand comes out as 4 -/
example : wrapOffsets [.num 2, .num 4294967300, .ref "m" 1] = [.num 2, .num 4, .ref "m" 1] := by decide

/-- worked instance of the whole code round trip: nop and dead code dropped, the `if` completed
    with an empty `else`, the larger function emitted first and the call retargeted accordingly -/
example : (roundTripCode ⟨[([], []), (["i32"], ["i32"])], 0,
    [⟨0, [], [(⟨"Call", [.ref "f" 1]⟩, 1), (⟨"End", []⟩, 2)]⟩,
     ⟨1, [(1, "i64")], [(⟨"LocalGet", [.ref "x" 0]⟩, 5), (⟨"Block", [.bt .empty]⟩, 6), (⟨"Nop", []⟩, 7), (⟨"Br", [.ref "l" 0]⟩, 8),
                        (⟨"I32Const", [.num 3]⟩, 9), (⟨"End", []⟩, 10), (⟨"I32Const", [.num 1]⟩, 11), (⟨"If", [.bt .empty]⟩, 12),
                        (⟨"End", []⟩, 13), (⟨"Drop", []⟩, 14), (⟨"End", []⟩, 15)]⟩]⟩).map (fun o => (o.order, o.funcs.map (·.ops)))
  = some ([1, 0], [[⟨"LocalGet", [.ref "x" 0]⟩, ⟨"Block", [.bt .empty]⟩, ⟨"Br", [.ref "l" 0]⟩, ⟨"End", []⟩, ⟨"I32Const", [.num 1]⟩,
                    ⟨"If", [.bt .empty]⟩, ⟨"Else", []⟩, ⟨"End", []⟩, ⟨"Drop", []⟩, ⟨"End", []⟩],
                   [⟨"Call", [.ref "f" 0]⟩, ⟨"End", []⟩]]) := by decide


/-! ## parse side: the control stack of `LocalFunction::parse` -/

/-- **the parse-time control stack computes the recursive description**: for every well-nested body
    (any nesting of block / loop / if / if-else, dead code, nops, branches), running
    `append_instruction` over the flat operator stream yields exactly the arena that `expL` computes
    from the source tree — the entry sequence with the surviving instructions, then every sequence
    in allocation order with its final content and end location -/
theorem parse_computes_the_recursive_description (e : PEnv) (entryTy : Nat) (body : PL) (hw : body.WF)
    (endLoc : Nat) (is : List (BInstr × Nat)) (cs : List PSeq) (u : Bool)
    (h : expL e [0] 1 false body = some (is, cs, u)) :
    buildBody e entryTy (body.flat ++ [(opEnd, endLoc)]) = some (⟨.multi entryTy, is, endLoc⟩ :: cs) :=
  buildBody_eq e entryTy body hw endLoc is cs u h

/-- in that description: nothing is appended to a frame that is unreachable (dead code is dropped) … -/
theorem dead_code_is_dropped (e : PEnv) (ids : List Nat) (o : Op) (loc : Nat) (is : List (BInstr × Nat)) (u : Bool)
    (h : leafEffect e ids true o loc = some (is, u)) : is = [] := by
  unfold leafEffect at h
  simp only [if_true] at h
  split at h
  · split at h
    · simp only [Option.map_eq_some_iff] at h
      obtain ⟨_, _, h⟩ := h; injection h with h1 _; exact h1.symm
    · cases h
  · split at h
    · split at h
      · simp only [Option.map_eq_some_iff] at h
        obtain ⟨_, _, h⟩ := h; injection h with h1 _; exact h1.symm
      · cases h
    · split at h
      · split at h
        · split at h
          · injection h with h; injection h with h1 _; exact h1.symm
          · cases h
        · cases h
      · split at h
        · injection h with h; injection h with h1 _; exact h1.symm
        · split at h
          · injection h with h; injection h with h1 _; exact h1.symm
          · simp only [Option.map_eq_some_iff] at h
            obtain ⟨_, _, h⟩ := h; injection h with h1 _; exact h1.symm

/-- … a `nop` appends nothing and changes nothing … -/
theorem nop_is_dropped (e : PEnv) (ids : List Nat) (unr : Bool) (o : Op) (loc : Nat) (hn : o.name = "Nop") :
    leafEffect e ids unr o loc = some ([], unr) := by
  simp [leafEffect, hn]

/-- … `return` and `unreachable` make the rest of the sequence unreachable (as do `br`, `br_table`) … -/
theorem transfer_ends_the_sequence (e : PEnv) (ids : List Nat) (unr : Bool) (o : Op) (loc : Nat)
    (hn : o.name = "Return" ∨ o.name = "Unreachable") :
    leafEffect e ids unr o loc = some (if unr then [] else [(.leaf o, loc)], true) := by
  rcases hn with h | h <;> simp [leafEffect, h]

/-- … and every other operator of a reachable frame is kept, once, with its own name and its
    immediates, entity operands replaced by ids (memarg offsets modulo 2^32: finding D5) -/
theorem plain_operator_is_kept_exactly (e : PEnv) (ids : List Nat) (o : Op) (loc : Nat) (a : List Arg)
    (h1 : o.name ≠ "Br") (h2 : o.name ≠ "BrIf") (h3 : o.name ≠ "BrTable") (h4 : o.name ≠ "Return")
    (h5 : o.name ≠ "Unreachable") (h6 : o.name ≠ "Nop") (ha : pMapArgs e (wrapOffsets o.args) = some a) :
    leafEffect e ids false o loc = some ([(.leaf ⟨o.name, a⟩, loc)], false) := by
  simp [leafEffect, h1, h2, h3, h4, h5, h6, ha]

/-- **parse followed by emit, on the model, for every well-nested body**: the emitted operator
    sequence is the structural flattening (block structure, block types, branch depths, every
    surviving operator with name and immediates, entity operands through the two maps) of the tree
    `treeL` computes from the *source*: nops and dead code gone, everything else in place -/
theorem body_round_trip_is_flatten_of_source_tree (m : IdMaps) (e : PEnv) (entryTy : Nat) (body : PL)
    (hw : body.WF) (endLoc : Nat) (is : List (BInstr × Nat)) (cs : List PSeq) (u : Bool)
    (h : expL e [0] 1 false body = some (is, cs, u))
    (t : TL LSeqTy LInstr) (ht : treeL e [0] 1 false body = some t)
    (ops : List (Nat × Op)) (hf : flattenL m [0] t = some ops) :
    ∃ seqs, buildBody e entryTy (body.flat ++ [(opEnd, endLoc)]) = some seqs ∧
      ∃ n, ∀ fuel, n ≤ fuel → (emitBodyFuel m (PSeqs.toArena seqs) fuel 0).map (·.1) =
        some (ops.map (·.2) ++ [⟨"End", []⟩]) := by
  obtain ⟨seqs, t', hb, ht', hg, hv⟩ := parsed_body_has_tree_view e entryTy body hw endLoc is cs u h
  rw [ht] at ht'
  injection ht' with ht'
  subst ht'
  exact ⟨seqs, hb, emitted_body_is_flatten m seqs 0 _ t hg hv ops hf⟩

/-- **the body round trip in source terms**: for every well-nested body that parses, what
    `emit ∘ parse` writes is `outL` of the *source tree* — the operators that are neither `nop` nor
    behind an unconditional transfer, in order, each with its name and immediates, entity operands
    through the parse-time and the emit-time map (`outArgs`), branches with the depths they had,
    block types in normal form (`outBt`), an `else` for every `if`, and the closing `end` -/
theorem body_round_trip_in_source_terms (m : IdMaps) (e : PEnv) (entryTy : Nat) (body : PL)
    (hw : body.WF) (endLoc : Nat) (is : List (BInstr × Nat)) (cs : List PSeq) (u : Bool)
    (h : expL e [0] 1 false body = some (is, cs, u))
    (ops : List (Nat × Op)) (u' : Bool) (ho : outL e m false body = some (ops, u')) :
    ∃ seqs, buildBody e entryTy (body.flat ++ [(opEnd, endLoc)]) = some seqs ∧
      ∃ n, ∀ fuel, n ≤ fuel → (emitBodyFuel m (PSeqs.toArena seqs) fuel 0).map (·.1) =
        some (ops.map (·.2) ++ [⟨"End", []⟩]) := by
  obtain ⟨t, ht, _, _⟩ := view_L e body [0] 1 false is cs u h
  have hr := (round_L e m body [0] 1 false is cs u t h ht (by simp) (by simp)).1
  rw [ho] at hr
  exact body_round_trip_is_flatten_of_source_tree m e entryTy body hw endLoc is cs u h t ht ops hr

/-- **the parse of a well-nested body succeeds exactly when its recursive description answers**
    (`buildBody_eq` one way, `expL_of_buildBody` — an induction that follows a failing description
    through the control stack — the other): the hypothesis `expL … = some …` of the theorems above
    is "the parse succeeded", nothing more -/
theorem parse_answers_iff_description_answers (e : PEnv) (entryTy : Nat) (body : PL) (hw : body.WF) (endLoc : Nat) :
    (buildBody e entryTy (body.flat ++ [(opEnd, endLoc)])).isSome = true ↔ (expL e [0] 1 false body).isSome = true := by
  constructor
  · intro h
    obtain ⟨seqs, hs⟩ := Option.isSome_iff_exists.1 h
    exact expL_of_buildBody e entryTy body hw endLoc seqs hs
  · intro h
    obtain ⟨r, hr⟩ := Option.isSome_iff_exists.1 h
    obtain ⟨is, cs, u⟩ := r
    rw [buildBody_eq e entryTy body hw endLoc is cs u hr]
    rfl

/-- the body round trip stated from the parse that happened: whenever `LocalFunction::parse`
    answered on a well-nested body and the emission maps cover what survives (`outL` answers),
    `emit` writes `outL` of the source tree -/
theorem parsed_body_round_trip (m : IdMaps) (e : PEnv) (entryTy : Nat) (body : PL) (hw : body.WF) (endLoc : Nat)
    (seqs : List PSeq) (hp : buildBody e entryTy (body.flat ++ [(opEnd, endLoc)]) = some seqs)
    (ops : List (Nat × Op)) (u' : Bool) (ho : outL e m false body = some (ops, u')) :
    ∃ n, ∀ fuel, n ≤ fuel → (emitBodyFuel m (PSeqs.toArena seqs) fuel 0).map (·.1) =
        some (ops.map (·.2) ++ [⟨"End", []⟩]) := by
  obtain ⟨r, hr⟩ := Option.isSome_iff_exists.1 (expL_of_buildBody e entryTy body hw endLoc seqs hp)
  obtain ⟨is, cs, u⟩ := r
  obtain ⟨seqs', hb, hn⟩ := body_round_trip_in_source_terms m e entryTy body hw endLoc is cs u hr ops u' ho
  rw [hp] at hb
  obtain rfl := Option.some.inj hb
  exact hn

/-- dead code and `nop`s contribute nothing to the output; a plain operator contributes itself -/
theorem out_of_nop (e : PEnv) (m : IdMaps) (o : Op) (loc : Nat) (hn : o.name = "Nop") :
    outI e m false (.op o loc) = some ([], false) := by
  simp [outI, outLeaf, transfers, hn]

theorem out_of_dead (e : PEnv) (m : IdMaps) (i : PI) : outI e m true i = some ([], true) := by
  cases i <;> simp [outI]

-- non-vacuity: a body with a nop, a branch out of a block followed by dead code containing a block
def sampleBody : PL :=
  .cons (.op ⟨"Nop", []⟩ 1)
  (.cons (.blk ⟨"Block", [.bt .empty]⟩ 2
      (.cons (.op ⟨"Br", [.ref "l" 0]⟩ 3)
       (.cons (.blk ⟨"Block", [.bt .empty]⟩ 4 (.cons (.op ⟨"I32Const", [.num 7]⟩ 5) .nil) 6)
        (.cons (.op ⟨"Drop", []⟩ 7) .nil))) 8)
  (.cons (.op ⟨"I32Const", [.num 1]⟩ 9) .nil))
def sampleEnv : PEnv := ⟨[], [], [], []⟩
example : (expL sampleEnv [0] 1 false sampleBody).map (fun r => (r.1, r.2.1.map (·.instrs), r.2.2)) =
    some ([(.block 1, 2), (.leaf ⟨"I32Const", [.num 1]⟩, 9)],
          [[(.br 1, 3)], [(.leaf ⟨"I32Const", [.num 7]⟩, 5)]], false) := by decide

example : (outL sampleEnv { identity := ["f", "t", "g", "m", "y", "d", "e", "x"] } false sampleBody).map (fun r => r.1.map (·.2)) =
    some [⟨"Block", [.bt .empty]⟩, ⟨"Br", [.ref "l" 0]⟩, ⟨"End", []⟩, ⟨"I32Const", [.num 1]⟩] := by decide

end C03
end Walrus