import Walrus.Dwarf
import Walrus.Props.C11

/-!
# C10 — DWARF addresses follow their instructions and functions

Model: `Walrus/Dwarf.lean` (address classification and conversion, `convert_high_pc`, the
line-row loop), on top of the offset bookkeeping proved exact in C11.  gimli's reading and
writing of DWARF is not modelled (trusted, sampled by the correspondence run).

Proved for all inputs: an address that is the start of an input instruction is converted to the
start of the same instruction in the output, relative to the code-section contents; addresses of
removed instructions convert to nothing and their rows are skipped; inside a sequence whose base
precedes the row in the output, the emitted row designates exactly that instruction; a
subprogram whose `low_pc` is classified by function range keeps covering the same function when
the size-LEB length is unchanged.

**Open findings** (the property is false of the unchanged code at these points; each is stated
below as a kernel-checked counterexample of the model and replayed on the implementation by the
oracle): rows of a sequence spanning several functions are clamped to the sequence base when their
function is emitted before it; a `low_pc` is off by the change of the size-LEB length; a
subprogram is tombstoned when the function's first instruction was elided.
-/
namespace Walrus
namespace C10

theorem lookupAddr_mem {l : List (Nat × Nat)} {k v : Nat} (h : lookupAddr l k = some v) : (k, v) ∈ l := by
  induction l with
  | nil => simp [lookupAddr] at h
  | cons x xs ih =>
    obtain ⟨a, b⟩ := x
    unfold lookupAddr at h
    split at h
    · rename_i hk; cases h; subst hk; exact List.mem_cons_self
    · exact List.mem_cons_of_mem _ (ih h)

/-- an address that is the start of an input instruction is classified as that instruction,
    whatever the search preference -/
theorem classify_instruction_start (g : AddrGen) (a loc : Nat) (pref : Pref)
    (h : lookupAddr g.instrs a = some loc) : findAddress g a pref = .instrInFunction loc := by
  simp [findAddress, h]

/-- **its converted value is the output offset of the same instruction, relative to the reported
    code-section start** -/
theorem instruction_address_follows_instruction (g : AddrGen) (ct : CodeTransform) (a loc off : Nat) (pref : Pref)
    (hin : lookupAddr g.instrs a = some loc) (hout : lookupAddr ct.instructionMap loc = some off) :
    convertAddress g ct a pref = some (off - ct.codeSectionStart) := by
  simp [convertAddress, classify_instruction_start g a loc pref hin, convertCode, hout]

/-- **addresses of removed instructions are dropped** -/
theorem removed_instruction_address_dropped (g : AddrGen) (ct : CodeTransform) (a loc : Nat) (pref : Pref)
    (hin : lookupAddr g.instrs a = some loc) (hout : lookupAddr ct.instructionMap loc = none) :
    convertAddress g ct a pref = none := by
  simp [convertAddress, classify_instruction_start g a loc pref hin, convertCode, hout]

/-- a row whose address does not resolve produces no output row and leaves the sequence as it is -/
theorem unresolved_row_is_skipped (g : AddrGen) (ct : CodeTransform) (st : LineSt) (off line b : Nat)
    (hs : st.inSeq = true) (hb : st.seqBase = some b)
    (hr : convertAddress g ct (st.fromBase + off) .inclusiveEnd = none) :
    lineStep g ct st (.row off line) = some st := by
  simp [lineStep, lineStep.emit, hs, hb, hr]

/-- **a row inside an open sequence designates exactly its instruction**, provided the
    instruction does not precede the sequence base in the output -/
theorem row_follows_instruction (g : AddrGen) (ct : CodeTransform) (st : LineSt) (off line b loc o : Nat)
    (hs : st.inSeq = true) (hb : st.seqBase = some b)
    (hin : lookupAddr g.instrs (st.fromBase + off) = some loc)
    (hout : lookupAddr ct.instructionMap loc = some o)
    (hmono : b ≤ o - ct.codeSectionStart) :
    lineStep g ct st (.row off line) =
      some { st with out := st.out ++ [⟨o - ct.codeSectionStart, line, false⟩],
                     lastOff := o - ct.codeSectionStart - b } := by
  have hc := instruction_address_follows_instruction g ct _ loc o .inclusiveEnd hin hout
  simp only [lineStep, lineStep.emit, hs, hb, hc, if_true]
  have : b + (o - ct.codeSectionStart - b) = o - ct.codeSectionStart := by omega
  simp [this]

/-- the first row of a sequence whose base is an instruction start opens the sequence there -/
theorem sequence_begins_at_its_instruction (g : AddrGen) (ct : CodeTransform) (st : LineSt) (line loc o : Nat)
    (hs : st.inSeq = false)
    (hin : lookupAddr g.instrs st.fromBase = some loc)
    (hout : lookupAddr ct.instructionMap loc = some o) :
    lineStep g ct st (.row 0 line) =
      some { st with seqBase := some (o - ct.codeSectionStart), inSeq := true,
                     out := st.out ++ [⟨o - ct.codeSectionStart, line, false⟩], lastOff := 0 } := by
  have hc1 := instruction_address_follows_instruction g ct _ loc o .exclusiveEnd hin hout
  have hc2 := instruction_address_follows_instruction g ct _ loc o .inclusiveEnd hin hout
  simp [lineStep, lineStep.emit, hs, hc1, hc2]

/-- **the end of a sequence that lies in removed code closes the sequence at the last kept row**
    (it used to leave the sequence open, and the next `SetAddress` then made `emit_wasm` panic:
    defect D18): no address of removed code is written, and the loop can go on -/
theorem sequence_end_in_removed_code_closes_at_the_last_kept_row (g : AddrGen) (ct : CodeTransform) (st : LineSt)
    (off b : Nat) (hs : st.inSeq = true) (hb : st.seqBase = some b)
    (hr : convertAddress g ct (st.fromBase + off) .inclusiveEnd = none) :
    lineStep g ct st (.endSequence off) =
      some { st with out := st.out ++ [⟨b + st.lastOff, 0, true⟩], inSeq := false, fromBase := st.fromBase + off } := by
  simp [lineStep, lineStep.emit, hs, hb, hr]

/-- an open sequence has a base (invariant of the row loop) -/
def stOk (st : LineSt) : Prop := st.inSeq = true → st.seqBase.isSome = true

theorem emit_ok (g : AddrGen) (ct : CodeTransform) (st : LineSt) (a : Nat) (line : Option Nat) (h : stOk st) :
    stOk (lineStep.emit g ct st a line) := by
  unfold lineStep.emit stOk at *
  by_cases hs : st.inSeq = true
  · have hb := h hs
    obtain ⟨b, hb⟩ := Option.isSome_iff_exists.1 hb
    simp only [hs, if_true, hb]
    cases convertAddress g ct a .inclusiveEnd <;> cases line <;> simp [hs, hb]
  · have hs' : st.inSeq = false := by simpa using hs
    simp only [hs', Bool.false_eq_true, if_false]
    cases hc : convertAddress g ct st.fromBase .exclusiveEnd with
    | none => simp
    | some b =>
      simp only [Option.isSome_some, if_true]
      cases convertAddress g ct a .inclusiveEnd <;> cases line <;> simp

/-- after an `end_sequence` no sequence is open, whether or not its address resolved -/
theorem end_sequence_closes (g : AddrGen) (ct : CodeTransform) (st : LineSt) (a : Nat) (h : stOk st) :
    (lineStep.emit g ct st a none).inSeq = false := by
  unfold lineStep.emit
  by_cases hs : st.inSeq = true
  · obtain ⟨b, hb⟩ := Option.isSome_iff_exists.1 (h hs)
    simp only [hs, if_true, hb]
    cases convertAddress g ct a .inclusiveEnd <;> simp [hs]
  · have hs' : st.inSeq = false := by simpa using hs
    simp only [hs', Bool.false_eq_true, if_false]
    cases hc : convertAddress g ct st.fromBase .exclusiveEnd with
    | none => simp
    | some b =>
      simp only [Option.isSome_some, if_true]
      cases convertAddress g ct a .inclusiveEnd <;> simp

/-- a line program in which every `SetAddress` stands at the start or right after an
    `end_sequence` (what producers write: one `SetAddress` per sequence) -/
def seqShaped : Bool → List LineInstr → Bool
  | _, [] => true
  | closed, .setAddress _ :: r => closed && seqShaped false r
  | _, .row _ _ :: r => seqShaped false r
  | _, .endSequence _ :: r => seqShaped true r

theorem lineRun_total_aux (g : AddrGen) (ct : CodeTransform) : ∀ (prog : List LineInstr) (st : LineSt) (closed : Bool),
    stOk st → (closed = true → st.inSeq = false) → seqShaped closed prog = true → (lineRun g ct st prog).isSome = true
  | [], st, _, _, _, _ => rfl
  | .setAddress a :: r, st, closed, hok, hc, hs => by
      simp only [seqShaped, Bool.and_eq_true] at hs
      have hin := hc hs.1
      simp only [lineRun, lineStep, hin, Bool.false_eq_true, if_false, Option.bind_some]
      exact lineRun_total_aux g ct r _ false (by simp [stOk, hin]) (by simp) hs.2
  | .row off line :: r, st, closed, hok, hc, hs => by
      simp only [seqShaped] at hs
      simp only [lineRun, lineStep, Option.bind_some]
      exact lineRun_total_aux g ct r _ false (emit_ok g ct st _ _ hok) (by simp) hs
  | .endSequence off :: r, st, closed, hok, hc, hs => by
      simp only [seqShaped] at hs
      simp only [lineRun, lineStep, Option.bind_some]
      exact lineRun_total_aux g ct r _ true (emit_ok g ct st _ _ hok)
        (fun _ => end_sequence_closes g ct st _ hok) hs

/-- **the conversion of a line program never fails** (so `emit_wasm` does not panic on it), whatever
    was removed, inserted or reordered: for every address generator and code transform and every
    sequence-shaped program -/
theorem line_program_conversion_is_total (g : AddrGen) (ct : CodeTransform) (prog : List LineInstr)
    (h : seqShaped true prog = true) : (lineRun g ct {} prog).isSome = true :=
  lineRun_total_aux g ct prog {} true (by simp [stOk]) (fun _ => rfl) h

/-- the offsets the bookkeeping assigns inside one function grow with the operator index, so a
    per-function sequence is monotone -/
theorem posOf_mono (f : EmittedFunc) (k k' : Nat) (h : k ≤ k') : f.posOf k ≤ f.posOf k' := by
  unfold EmittedFunc.posOf
  have : (f.ops.take k).flatten.length ≤ (f.ops.take k').flatten.length := by
    have e : f.ops.take k = (f.ops.take k').take k := by
      rw [List.take_take, Nat.min_eq_left h]
    rw [e]
    conv => rhs; rw [flatten_take_drop (f.ops.take k') k]
    simp
  omega

/-- with C11: the row's address, rebased by the code-section start, is where the operator's bytes
    begin in the emitted binary -/
theorem row_address_is_operator_start (pre : List UInt8) (fs : List EmittedFunc) (hw : C11.WellIndexed fs)
    (loc o : Nat) (hout : lookupAddr (codeTransform pre.length fs (lebLen fs.length)).instructionMap loc = some o) :
    ∃ f ∈ fs, ∃ k, ∃ (hk : k < f.ops.length), (loc, k) ∈ f.marks ∧
      ∃ rest, (C11.moduleBytes pre fs).drop o = f.ops[k] ++ rest := by
  have hm := lookupAddr_mem hout
  obtain ⟨_, f, hf, k, hk, hmark, rest, hr⟩ :=
    C11.map_entries_point_at_their_instruction pre fs (lebLen fs.length) hw (loc, o) hm
  exact ⟨f, hf, k, hk, hmark, rest, hr⟩

/-- **subprogram ranges (partial)**: a `low_pc` that lies inside function `f` (not at an
    instruction, not one byte before one) at distance `d` from the start of its entry, with
    `low_pc + len` the end of that function, converts to the same distance from the start of the
    output entry and to the output end. With `d` = length of the size LEB this is the body of the
    same function exactly when that length is unchanged. -/
theorem subprogram_range_partial (g : AddrGen) (ct : CodeTransform) (low len f s e d : Nat)
    (hlow : findAddress g low .inclusiveEnd = .offsetInFunction f d)
    (hend : findAddress g (low + len) .inclusiveEnd = .functionEdge f)
    (hr : lookupRange ct.functionRanges f = some (s, e))
    (hne : low ≠ 0 ∧ low ≠ deadCode) :
    convertSubprogram g ct low len = (s + d - ct.codeSectionStart, (e - ct.codeSectionStart) - (s + d - ct.codeSectionStart)) := by
  simp [convertSubprogram, convertAttrAddress, convertAddress, hlow, hend, convertCode, hr, hne.1, hne.2]

/-! ### the open findings, as counterexamples of the model (each replayed on walrus by the oracle) -/

/-- D10: two functions in one sequence, the second emitted before the first: its row is clamped to
    the sequence base instead of designating its instruction -/
example :
    let g : AddrGen := ⟨[(1, 5, 0), (5, 9, 1)], [(3, 103), (4, 104), (7, 107), (8, 108)]⟩
    let ct : CodeTransform := ⟨[(103, 27), (104, 28), (107, 23), (108, 24)], 20, [(0, 25, 29), (1, 21, 25)]⟩
    (lineRun g ct {} [.setAddress 3, .row 0 1, .row 1 2, .row 4 3, .row 5 4, .endSequence 6]).map (·.out)
      = some [⟨7, 1, false⟩, ⟨8, 2, false⟩, ⟨7, 3, false⟩, ⟨7, 4, false⟩, ⟨7, 0, true⟩] := by decide

/-- D11: size LEB two bytes in the input, one byte in the output: `low_pc` lands one byte into the body -/
example :
    let g : AddrGen := ⟨[(1, 200, 0)], [(5, 105)]⟩
    let ct : CodeTransform := ⟨[(105, 24)], 20, [(0, 21, 110)]⟩
    convertSubprogram g ct 3 197 = (3, 87) ∧ (22 : Nat) - 20 = 2 := by decide

/-- D12: no locals, first instruction (a `nop`) not emitted: the subprogram is tombstoned although
    its function is in the output -/
example :
    let g : AddrGen := ⟨[(1, 9, 0)], [(3, 103), (4, 104)]⟩
    let ct : CodeTransform := ⟨[(104, 23)], 20, [(0, 21, 26)]⟩
    (convertSubprogram g ct 2 7).1 = deadCode := by decide

/-- non-vacuity of `row_follows_instruction`: a per-function sequence converted exactly -/
example :
    let g : AddrGen := ⟨[(1, 9, 0)], [(3, 103), (4, 104), (6, 106)]⟩
    let ct : CodeTransform := ⟨[(103, 33), (104, 34), (106, 35)], 30, [(0, 31, 38)]⟩
    (lineRun g ct {} [.setAddress 3, .row 0 1, .row 1 2, .row 3 3, .endSequence 6]).map (·.out)
      = some [⟨3, 1, false⟩, ⟨4, 2, false⟩, ⟨5, 3, false⟩, ⟨8, 0, true⟩] := by decide

end C10
end Walrus
