import Walrus.Proofs.FuncSigs
import Walrus.Props.C19

/-!
# C19 — the emit-time function map, for the code section `emitCode` actually writes

`C19.emitted_function_index_exact` assumes that the emitted functions have pairwise distinct ids.
Here that hypothesis is discharged for the model's emission: ids handed out by the parse are
`importedFuncs + position`, the size sort is a permutation, so the ids of the emitted functions are
distinct (`emitCode_ids_nodup`, Proofs/FuncSigs).
-/
namespace Walrus
namespace C19

/-- **for every parsed module, the index the emit-time map reports for the `j`-th emitted function
    is `importedFuncs + j`** — its position in the function index space of the output — with no
    assumption left on the ids -/
theorem emitted_function_index_exact_for_the_emitted_code (c : InCode) (pfs : List ParsedFunc) (oc : OutCode)
    (hp : parseCode c = some pfs) (he : emitCode c pfs = some oc) (j : Nat) (hj : j < oc.funcs.length) :
    assoc (oc.funcs.zipIdx.map (fun p => (p.1.id, c.importedFuncs + p.2))) (oc.funcs[j].id) =
      some (c.importedFuncs + j) :=
  emitted_function_index_exact c.importedFuncs oc.funcs (emitCode_ids_nodup c pfs oc hp he) j hj

/-- **every local function of the input is emitted exactly once**: the ids of the functions in the
    output's code section are a permutation of the ids the parse handed out, one per function of the
    input's code section — none dropped, none duplicated, whatever the size sort does -/
theorem every_local_function_is_emitted_exactly_once (c : InCode) (pfs : List ParsedFunc) (oc : OutCode)
    (hp : parseCode c = some pfs) (he : emitCode c pfs = some oc) :
    (oc.funcs.map (·.id)).Perm ((List.range c.funcs.length).map (c.importedFuncs + ·)) :=
  emitCode_ids_perm c pfs oc hp he

end C19
end Walrus
