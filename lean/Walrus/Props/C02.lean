import Walrus.Proofs.Gc
import Walrus.Proofs.Module
import Walrus.Gen.EmitOrder

/-!
# C02 — emitted binaries always validate and emission never panics

In the model a panic of `IdsToIndices::get_*_index` is a failed lookup (`none`).  Proved here, for
all inputs: a lookup fails **only** on an id that has no emitted index (`mapArgs`/`mapCExpr` succeed
iff every entity operand has one); after the GC pass every kept entity has an index in its
compaction map, every function that is kept has an index in the function map that the code, export,
start and element sections use, and — because the used set is closed under every edge the code
scans (C06/C07 theorems) — every referent of a kept entity is itself kept.  What the theorems do
not cover is decided on the real code: the harness runs parse→emit, GC→emit and generated
builder/edit sequences under `catch_unwind`, validates every output with wasmparser under
walrus's feature set, and the model's failure answer (`none`) is compared with the code's panic on
every case.  `partial`: validity of the output is an oracle fact, not a theorem.
-/
namespace Walrus
namespace C02

/-- operands are rewritten successfully iff every entity operand has an emitted index -/
theorem mapArgs_isSome_iff (m : IdMaps) : ∀ (args : List Arg),
    (mapArgs m args).isSome = true ↔ ∀ sp id, Arg.ref sp id ∈ args → (m.get sp id).isSome = true
  | [] => by simp [mapArgs]
  | .ref sp id :: r => by
      have ih := mapArgs_isSome_iff m r
      simp only [mapArgs]
      constructor
      · intro h sp' id' hm
        cases h1 : m.get sp id with
        | none => simp [h1] at h
        | some ix =>
          cases h2 : mapArgs m r with
          | none => simp [h1, h2] at h
          | some r' =>
            rcases List.mem_cons.1 hm with he | hm
            · injection he with e1 e2; subst e1; subst e2; simp [h1]
            · exact ih.1 (by simp [h2]) sp' id' hm
      · intro h
        have h1 := h sp id List.mem_cons_self
        have h2 := ih.2 (fun sp' id' hm => h sp' id' (List.mem_cons_of_mem _ hm))
        cases h1' : m.get sp id with
        | none => simp [h1'] at h1
        | some ix =>
          cases h2' : mapArgs m r with
          | none => simp [h2'] at h2
          | some r' => simp
  | .imm s :: r => by
      have ih := mapArgs_isSome_iff m r
      simp only [mapArgs, Option.isSome_map]
      rw [ih]
      constructor
      · intro h sp id hm
        rcases List.mem_cons.1 hm with he | hm
        · cases he
        · exact h sp id hm
      · intro h sp id hm; exact h sp id (List.mem_cons_of_mem _ hm)
  | .num s :: r => by
      have ih := mapArgs_isSome_iff m r
      simp only [mapArgs, Option.isSome_map]
      rw [ih]
      constructor
      · intro h sp id hm
        rcases List.mem_cons.1 hm with he | hm
        · cases he
        · exact h sp id hm
      · intro h sp id hm; exact h sp id (List.mem_cons_of_mem _ hm)
  | .bt s :: r => by
      have ih := mapArgs_isSome_iff m r
      simp only [mapArgs, Option.isSome_map]
      rw [ih]
      constructor
      · intro h sp id hm
        rcases List.mem_cons.1 hm with he | hm
        · cases he
        · exact h sp id hm
      · intro h sp id hm; exact h sp id (List.mem_cons_of_mem _ hm)

theorem mapM_isSome_iff {α β : Type} (f : α → Option β) : ∀ (l : List α),
    (l.mapM f).isSome = true ↔ ∀ x ∈ l, (f x).isSome = true
  | [] => by simp
  | a :: r => by
      have ih := mapM_isSome_iff f r
      simp only [List.mapM_cons, Option.bind_eq_bind]
      cases ha : f a with
      | none =>
        simp only [Option.bind_none, Option.isSome_none, Bool.false_eq_true, false_iff]
        intro h; have := h a List.mem_cons_self; simp [ha] at this
      | some y =>
        cases hr : r.mapM f with
        | none =>
          simp only [Option.bind_some, Option.bind_none, Option.isSome_none, Bool.false_eq_true, false_iff]
          intro h
          have := ih.2 (fun x hx => h x (List.mem_cons_of_mem _ hx))
          simp [hr] at this
        | some ys =>
          simp only [Option.bind_some]
          refine ⟨fun _ => ?_, fun _ => rfl⟩
          intro x hx
          rcases List.mem_cons.1 hx with rfl | hx
          · simp [ha]
          · exact ih.1 (by simp [hr]) x hx

/-- a constant expression is emitted iff every entity it mentions has an index -/
theorem mapCExpr_isSome_iff (m : IdMaps) (c : CExprM) :
    (mapCExpr m c).isSome = true ↔
      ∀ op ∈ c, ∀ sp id, Arg.ref sp id ∈ op.args → (m.get sp id).isSome = true := by
  unfold mapCExpr
  rw [mapM_isSome_iff]
  constructor
  · intro h op hop
    have := h op hop
    rw [Option.isSome_map] at this
    exact (mapArgs_isSome_iff m op.args).1 this
  · intro h op hop
    rw [Option.isSome_map]
    exact (mapArgs_isSome_iff m op.args).2 (h op hop)

/-- every kept entity of a compacted space has an emitted index; nothing else has one -/
theorem kept_has_index (u : List Ent) (sp : String) (n i : Nat) (hi : i < n) (hu : (sp, i) ∈ u) :
    (assoc (compact (keptOf u sp n)) i).isSome = true :=
  assoc_compact_some _ _ ((mem_keptOf u sp n i).2 ⟨hi, hu⟩)

theorem dropped_has_no_index (u : List Ent) (sp : String) (n i : Nat) (hu : (sp, i) ∉ u) :
    assoc (compact (keptOf u sp n)) i = none :=
  assoc_zipIdx_none _ 0 _ (fun h => hu ((mem_keptOf u sp n i).1 h).2)

/-- the function index map the emitter builds (kept imports first, then the emitted local
    functions) has an index for every kept import and every emitted function -/
theorem funcMap_lookup (imp : List Nat) (fs : List OutFunc) (f : Nat)
    (h : f ∈ imp ∨ f ∈ fs.map (·.id)) :
    (assoc (imp.zipIdx.map (fun p => (p.1, p.2)) ++ fs.zipIdx.map (fun p => (p.1.id, imp.length + p.2))) f).isSome = true := by
  have app : ∀ (a b : List (Nat × Nat)), (assoc a f).isSome = true ∨ (assoc b f).isSome = true →
      (assoc (a ++ b) f).isSome = true := by
    intro a b
    induction a with
    | nil => intro h; rcases h with h | h; simp [assoc] at h; simpa using h
    | cons x r ih =>
      intro h
      obtain ⟨x1, x2⟩ := x
      simp only [List.cons_append, assoc] at h ⊢
      split
      · rfl
      · rename_i hne
        simp only [hne, if_false] at h
        exact ih h
  apply app
  rcases h with h | h
  · exact Or.inl (assoc_zipIdx_some imp 0 f h)
  · right
    have gen : ∀ (l : List OutFunc) (k : Nat), f ∈ l.map (·.id) →
        (assoc ((l.zipIdx k).map (fun p => (p.1.id, imp.length + p.2))) f).isSome = true := by
      intro l
      induction l with
      | nil => intro k h; cases h
      | cons a r ih =>
        intro k h
        simp only [List.zipIdx_cons, List.map_cons, assoc]
        split
        · rfl
        · rename_i hne
          rcases List.mem_cons.1 h with h | h
          · exact absurd h.symm hne
          · exact ih (k + 1) h
    exact gen fs 0 h

/-- every referent of a kept entity is kept (so, with `kept_has_index`, has an emitted index) -/
theorem referent_of_kept_is_kept (g : GcInfo) (hd : usedFinished g = true) (x y : Ent)
    (hx : Reach (gcSucc g) (gcRoots g).eraseDups x) (hy : y ∈ gcSucc g x) : y ∈ usedSet g :=
  usedSet_closed g hd x y ((closure_is_reach _ _ _ (usedFinished_done g hd) x).2 hx) hy

/-! ### the order of the sections (regenerated from `Module::emit_wasm` on every run) -/

/-- the place of each emission step in the order the binary format prescribes for non-custom
    sections (type 1 … element 9, data count 12 *before* code 10 and data 11); custom sections (name,
    producers, DWARF, the rest) may stand anywhere: rank 100 -/
def sectionRank (step : String) : Option Nat :=
  if step = "types.emit" then some 1 else if step = "imports.emit" then some 2
  else if step = "funcs.emit_func_section" then some 3 else if step = "tables.emit" then some 4
  else if step = "memories.emit" then some 5 else if step = "globals.emit" then some 6
  else if step = "exports.emit" then some 7 else if step = "start" then some 8
  else if step = "elements.emit" then some 9 else if step = "data.emit_data_count" then some 10
  else if step = "funcs.emit" then some 11 else if step = "data.emit" then some 12
  else if step = "emit_name_section" || step = "producers.emit" || step = "debug.emit" || step = "custom" then some 100
  else none

def strictlyAscending : List Nat → Bool
  | a :: b :: r => a < b && strictlyAscending (b :: r)
  | _ => true

/-- **`emit_wasm` writes the sections in the order the binary format requires**: every step of its
    body is a known section writer, the non-custom sections come in strictly ascending format order
    (each at most once), and the custom sections follow in the order the section model assumes
    (name, producers, DWARF, the module's other custom sections) -/
theorem emit_order_is_the_binary_format_order :
    (Gen.emitOrder.mapM sectionRank).map (fun rs => (strictlyAscending (rs.filter (· < 100)), rs.filter (· ≥ 100))) =
      some (true, [100, 100, 100, 100]) ∧
    Gen.emitOrder.drop 12 = ["emit_name_section", "producers.emit", "debug.emit", "custom"] := by decide

-- non-vacuity: a lookup that fails in the model is a dangling reference
example : mapArgs { funcs := [(0, 0)] } [.ref "f" 1] = none := by decide
example : mapArgs { funcs := [(0, 0), (1, 1)] } [.ref "f" 1, .num 3] = some [.ref "f" 1, .num 3] := by decide

end C02
end Walrus
