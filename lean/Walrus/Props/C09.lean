import Walrus.Par
import Walrus.Gen.ParSites

/-!
# C09 — parallel and serial builds agree under every schedule

Proved: for *every* schedule (any completion order of the per-function tasks), the indexed
collect yields exactly the serial `map`, `any` yields the serial `any`, and the error reported
after the collect is the first one in index order. Obligation on the generated table
(`Gen/ParSites.lean`, regenerated from /repo on every run): every `maybe_parallel!` site has one
of these two consumer shapes, no other direct use of rayon exists besides the accessor wrappers,
and `src/` contains no unsafe code, mutable static or interior mutability through which tasks
could communicate.  Not proved (trusted, sampled by the oracle): rayon itself and data-race
freedom of safe Rust.
-/
namespace Walrus
namespace C09

variable {α β : Type}

theorem runSched_length (f : α → β) (xs : List α) (sched : List Nat) (slots : List (Option β)) :
    (runSched f xs sched slots).length = slots.length := by
  induction sched generalizing slots with
  | nil => rfl
  | cons i r ih =>
    simp only [runSched, List.foldl_cons] at ih ⊢
    rw [ih]
    split <;> simp

theorem runSched_get (f : α → β) (xs : List α) (sched : List Nat) (slots : List (Option β))
    (hl : slots.length = xs.length) (j : Nat) (hj : j < xs.length) :
    (runSched f xs sched slots)[j]? =
      if j ∈ sched then some (some (f xs[j])) else slots[j]? := by
  induction sched generalizing slots with
  | nil => simp [runSched]
  | cons i r ih =>
    simp only [runSched, List.foldl_cons] at ih ⊢
    cases hx : xs[i]? with
    | none =>
      have hi : xs.length ≤ i := by
        rcases Nat.lt_or_ge i xs.length with h | h
        · simp [List.getElem?_eq_getElem h] at hx
        · exact h
      rw [ih slots hl]
      have : j ≠ i := by omega
      simp [this]
    | some x =>
      have hi : i < xs.length := by
        rcases Nat.lt_or_ge i xs.length with h | h
        · exact h
        · simp [List.getElem?_eq_none h] at hx
      have hxi : xs[i] = x := by
        have := List.getElem?_eq_getElem hi
        rw [this] at hx; exact Option.some.inj hx
      rw [ih (slots.set i (some (f x))) (by simp [hl])]
      by_cases hji : j = i
      · subst hji
        by_cases hm : j ∈ r
        · simp [hm]
        · simp [hm, hl, hj, hxi]
      · have hne : i ≠ j := fun e => hji e.symm
        by_cases hm : j ∈ r
        · simp [hm]
        · simp [hm, hji, List.getElem?_set_ne hne]

/-- **Indexed collect is schedule independent.** Whatever order the tasks complete in, as long
    as every task completes, the collected vector is the serial `map`. -/
theorem parMapCollect_eq (f : α → β) (xs : List α) (sched : List Nat)
    (hall : ∀ j, j < xs.length → j ∈ sched) :
    parMapCollect f xs sched = xs.map (fun x => some (f x)) := by
  apply List.ext_getElem?
  intro j
  by_cases hj : j < xs.length
  · rw [parMapCollect, runSched_get f xs sched _ (by simp) j hj]
    simp [hall j hj, hj]
  · have h1 : (parMapCollect f xs sched).length = xs.length := by
      simp [parMapCollect, runSched_length]
    rw [List.getElem?_eq_none (by omega), List.getElem?_eq_none (by simp; omega)]

/-- `any` is schedule independent -/
theorem schedAny_eq (p : α → Bool) (xs : List α) (sched : List Nat)
    (hall : ∀ j, j < xs.length → j ∈ sched) :
    schedAny p xs sched = xs.any p := by
  unfold schedAny
  apply Bool.eq_iff_iff.2
  simp only [List.any_eq_true]
  constructor
  · rintro ⟨i, _, hi⟩
    cases hx : xs[i]? with
    | none => simp [hx] at hi
    | some x =>
      simp only [hx] at hi
      exact ⟨x, List.mem_of_getElem? hx, hi⟩
  · rintro ⟨x, hx, hp⟩
    obtain ⟨i, hi, rfl⟩ := List.getElem_of_mem hx
    exact ⟨i, hall i hi, by simp [hi, hp]⟩

/-- the error reported for a module with failing function bodies does not depend on the schedule -/
theorem firstError_eq {ε : Type} (f : α → Except ε β) (xs : List α) (s1 s2 : List Nat)
    (h1 : ∀ j, j < xs.length → j ∈ s1) (h2 : ∀ j, j < xs.length → j ∈ s2) :
    parMapCollect f xs s1 = parMapCollect f xs s2 := by
  rw [parMapCollect_eq f xs s1 h1, parMapCollect_eq f xs s2 h2]

/-! ### obligations on the table regenerated from the source -/

def siteOK (s : Gen.ParSite) : Bool :=
  s.chain == ["any"] || s.chain == ["map", "collect::<Vec<_>>"]

/-- every parallel site is an indexed map-collect or an `any`; none was missed by the extraction -/
theorem par_sites_ok :
    Gen.parSites.all siteOK = true ∧ Gen.parSites.length = Gen.parMacroUses ∧ Gen.parseFailures = [] := by
  decide

/-- the only direct uses of rayon are the accessor wrappers (`par_iter*` of the function arena and
    of `TombstoneArena`), which only `map`/`filter`/`filter_map` -/
theorem rayon_direct_whitelist :
    Gen.rayonDirect = ["src/module/functions/mod.rs:par_iter", "src/module/functions/mod.rs:par_iter",
      "src/module/functions/mod.rs:par_iter_mut", "src/module/functions/mod.rs:par_iter_mut",
      "src/tombstone_arena.rs:par_iter", "src/tombstone_arena.rs:par_iter_mut"] := by decide

/-- nothing in `src/` lets two tasks communicate behind the type system -/
theorem no_shared_state : Gen.sharedStateHazards = [] := by decide

/-- non-vacuity: a reversed and an interleaved schedule of four tasks -/
example : parMapCollect (· + 10) [1, 2, 3, 4] [3, 2, 1, 0] = [some 11, some 12, some 13, some 14] ∧
          parMapCollect (· + 10) [1, 2, 3, 4] [2, 0, 3, 1, 2] = [some 11, some 12, some 13, some 14] := by decide

end C09
end Walrus
