import Walrus.Proofs.ArenaSet

/-!
# C17 — identifiers are stable, never reused, and deletion is isolated

Property theorems only. Model: `Walrus/Arena.lean` (TombstoneArena, ArenaSet), specification
`ASpec` = a counter and the list of live `(id, item)` pairs in creation order.
All statements quantify over *every* operation history (`List (AOp α)`), every item type, every
`on_delete` behaviour.
-/

namespace Walrus
namespace C17

variable {α : Type} [DecidableEq α]

/-- **Refinement (plain arenas).** Every history on a `TombstoneArena`, starting from the empty
    arena, gives exactly the answers of the specification, and the final state abstracts to the
    specification's final state. -/
theorem arena_refines_spec (od : α → α) (ops : List (AOp α)) :
    ((Arena.run od Arena.empty ops).1.abs, (Arena.run od Arena.empty ops).2)
      = ASpec.run (ASpec.empty : ASpec α) ops :=
  (Arena.run_refines od ops Arena.inv_empty).1

/-- **Refinement (de-duplicating set, `ModuleTypes`).** -/
theorem set_refines_spec (od : α → α) (ops : List (AOp α)) :
    ((ArenaSet.run od ArenaSet.empty ops).1.abs, (ArenaSet.run od ArenaSet.empty ops).2)
      = ASpec.runSet (ASpec.empty : ASpec α) ops :=
  (ArenaSet.run_refines od ops ArenaSet.inv_empty).1

/-- every reachable arena satisfies the representation invariant -/
theorem reachable_inv (od : α → α) (ops : List (AOp α)) : (Arena.run od Arena.empty ops).1.Inv :=
  (Arena.run_refines od ops Arena.inv_empty).2

theorem reachable_set_inv (od : α → α) (ops : List (AOp α)) :
    (ArenaSet.run od ArenaSet.empty ops).1.Inv :=
  (ArenaSet.run_refines od ops ArenaSet.inv_empty).2

/-! ### consequences, stated on the concrete model -/

theorem find?_append (l r : List (Nat × α)) (i : Nat) :
    ASpec.find? (l ++ r) i = (ASpec.find? l i).orElse (fun _ => ASpec.find? r i) := by
  induction l with
  | nil => simp [ASpec.find?]
  | cons x xs ih =>
    obtain ⟨k, w⟩ := x
    simp only [List.cons_append, ASpec.find?]
    split <;> simp [ih]

/-- one step changes what an identifier denotes only by deleting exactly that identifier or by
    allocating exactly the identifier `next_id` -/
theorem step_get (od : α → α) {a : Arena α} (h : a.Inv) (op : AOp α) (i : Nat) :
    (Arena.step od a op).1.get? i =
      match op with
      | .delete j => if j = i then none else a.get? i
      | .alloc v => if i = a.nextId then some v else a.get? i
      | _ => a.get? i := by
  have hr := Arena.step_refines od h op
  rw [← Arena.find?_iter, ← Arena.find?_iter]
  have e : (Arena.step od a op).1.iter = (ASpec.stepWith ASpec.alloc a.abs op).1.live := by
    rw [← hr.1]; rfl
  rw [e]
  cases op with
  | alloc v =>
    simp only [ASpec.stepWith, ASpec.alloc, Arena.abs, find?_append, Arena.nextId]
    by_cases hi : i = a.items.length
    · subst hi
      have : ASpec.find? a.iter a.items.length = none := by
        rw [Arena.find?_iter]; simp [Arena.get?]
      simp [this, ASpec.find?]
    · have : ¬ a.items.length = i := fun e => hi e.symm
      simp only [ASpec.find?, this, hi, if_false]
      cases ASpec.find? a.iter i <;> rfl
  | delete j =>
    simp only [ASpec.stepWith, ASpec.delete]
    cases hf : ASpec.find? a.abs.live j with
    | none =>
      by_cases hj : j = i
      · subst hj; simpa [Arena.abs] using hf
      · simp [hj, Arena.abs]
    | some w =>
      simp only [Arena.abs]
      rw [find?_filter (fun k => !(k == j))]
      by_cases hj : j = i
      · subst hj; simp
      · have : ¬ i = j := fun e => hj e.symm
        simp [hj, this]
  | get _ => rfl
  | index _ => rfl
  | contains _ => rfl
  | iter => rfl
  | len => rfl
  | find _ => rfl

/-- `next_id` never decreases, and grows by exactly one on `alloc` -/
theorem step_nextId (od : α → α) (a : Arena α) (op : AOp α) :
    (Arena.step od a op).1.nextId =
      match op with
      | .alloc _ => a.nextId + 1
      | _ => a.nextId := by
  cases op with
  | alloc v => simp [Arena.step, Arena.alloc, Arena.nextId]
  | delete j =>
    simp only [Arena.step, Arena.delete]
    split
    · rename_i a' heq
      split at heq
      · cases heq; simp [Arena.nextId]
      · cases heq
    · rfl
  | get _ => rfl
  | index _ => rfl
  | contains _ => rfl
  | iter => rfl
  | len => rfl
  | find _ => rfl

/-- `alloc` returns `next_id`, which denotes nothing beforehand: identifiers are never recycled. -/
theorem alloc_returns_fresh {a : Arena α} (h : a.Inv) (v : α) :
    (a.alloc v).2 = a.nextId ∧ a.get? a.nextId = none ∧ (a.alloc v).1.get? a.nextId = some v := by
  refine ⟨rfl, by simp [Arena.get?, Arena.nextId], ?_⟩
  have := step_get (fun x => x) h (.alloc v) a.nextId
  simpa [Arena.step] using this

/-- **Stability.** An identifier keeps denoting its item across any history that does not delete it. -/
theorem id_stable (od : α → α) (ops : List (AOp α)) {a : Arena α} (h : a.Inv) (i : Nat) (v : α)
    (hv : a.get? i = some v)
    (hno : ∀ j, AOp.delete j ∈ ops → j ≠ i) :
    (Arena.run od a ops).1.get? i = some v := by
  induction ops generalizing a with
  | nil => simpa [Arena.run] using hv
  | cons op ops ih =>
    have hs := Arena.step_refines od h op
    simp only [Arena.run]
    apply ih hs.2
    · rw [step_get od h op i]
      cases op with
      | alloc w =>
        have : i ≠ a.nextId := by
          intro e; subst e; simp [Arena.get?, Arena.nextId] at hv
        simp [this, hv]
      | delete j =>
        have := hno j (List.mem_cons_self)
        simp [this, hv]
      | get _ => exact hv
      | index _ => exact hv
      | contains _ => exact hv
      | iter => exact hv
      | len => exact hv
      | find _ => exact hv
    · intro j hj; exact hno j (List.mem_cons_of_mem _ hj)

/-- **Deletion is final.** Once an identifier below `next_id` denotes nothing (it was deleted), no
    later history makes it denote anything again. -/
theorem dead_forever (od : α → α) (ops : List (AOp α)) {a : Arena α} (h : a.Inv) (i : Nat)
    (hi : i < a.nextId) (hd : a.get? i = none) :
    (Arena.run od a ops).1.get? i = none := by
  induction ops generalizing a with
  | nil => simpa [Arena.run] using hd
  | cons op ops ih =>
    have hs := Arena.step_refines od h op
    simp only [Arena.run]
    apply ih hs.2
    · rw [step_nextId]; cases op <;> simp <;> omega
    · rw [step_get od h op i]
      cases op with
      | alloc w => have : i ≠ a.nextId := by omega
                   simp [this, hd]
      | delete j => by_cases hj : j = i <;> simp [hj, hd]
      | get _ => exact hd
      | index _ => exact hd
      | contains _ => exact hd
      | iter => exact hd
      | len => exact hd
      | find _ => exact hd

/-- a successful `delete i` makes `i` absent and changes no other identifier -/
theorem delete_isolated (od : α → α) {a : Arena α} (h : a.Inv) (i j : Nat) :
    (Arena.step od a (.delete i)).1.get? j = if i = j then none else a.get? j :=
  step_get od h (.delete i) j

/-- **Iteration** yields exactly the live items, in creation (= identifier) order. -/
theorem iter_exact (a : Arena α) :
    KeysFrom 0 a.iter ∧ ∀ i v, (i, v) ∈ a.iter ↔ a.get? i = some v := by
  refine ⟨arena_iter_keys a, ?_⟩
  intro i v
  rw [← Arena.find?_iter, find?_iff_mem (arena_iter_keys a)]

/-- `len` is the number of live items -/
theorem len_exact {a : Arena α} (h : a.Inv) : a.len = a.iter.length := Arena.len_abs h

/-- **De-duplication.** Adding a value that is already present returns the existing identifier and
    changes nothing; adding a new value returns the fresh identifier `next_id`. -/
theorem set_insert_existing {s : ArenaSet α} (h : s.Inv) (i : Nat) (v : α)
    (hm : (i, v) ∈ s.iter) : s.insert v = (s, i) := by
  have := (h.index v i).2 hm
  simp [ArenaSet.insert, this]

theorem set_insert_fresh {s : ArenaSet α} (h : s.Inv) (v : α)
    (hm : ∀ i, (i, v) ∉ s.iter) : (s.insert v).2 = s.arena.nextId := by
  have hl := ArenaSet.lookup_eq_findVal h v
  have := findVal_none.2 hm
  simp only [ArenaSet.iter] at this
  rw [this] at hl
  simp [ArenaSet.insert, hl, Arena.alloc, Arena.nextId]

/-- after removing a type, adding the same signature again yields a *fresh* identifier (the dead
    one is not resurrected) -/
theorem set_remove_then_insert_fresh (od : α → α) {s s' : ArenaSet α} (h : s.Inv)
    (i : Nat) (v : α) (hm : (i, v) ∈ s.iter) (hr : s.remove od i = some s') :
    (s'.insert v).2 = s'.arena.nextId ∧ (s'.insert v).2 ≠ i := by
  have hinv' := (ArenaSet.remove_refines od h i).2 s' hr
  have hab := (ArenaSet.remove_refines od h i).1
  rw [hr] at hab
  have hfind : ASpec.find? s.arena.iter i = some v := (find?_iff_mem (arena_iter_keys _) i v).2 hm
  have hlive : s'.arena.iter = s.arena.iter.filter (fun p => !(p.1 == i)) := by
    have h2 : s.abs.delete i = some ⟨s.abs.next, s.abs.live.filter (fun p => !(p.1 == i))⟩ := by
      unfold ASpec.delete
      have : ASpec.find? s.abs.live i = some v := by simpa [ArenaSet.abs, Arena.abs] using hfind
      simp [this]
    rw [h2] at hab
    have := congrArg ASpec.live (Option.some.inj hab)
    simpa [ArenaSet.abs, Arena.abs] using this
  have hnone : ∀ j, (j, v) ∉ s'.iter := by
    intro j hj
    simp only [ArenaSet.iter, hlive, List.mem_filter] at hj
    have h1 := (h.index v j).2 hj.1
    have h2 := (h.index v i).2 hm
    rw [h1] at h2
    have : j = i := Option.some.inj h2
    subst this
    simp at hj
  have hfresh := set_insert_fresh hinv' v hnone
  refine ⟨hfresh, ?_⟩
  rw [hfresh]
  have hnext : s'.arena.nextId = s.arena.nextId := by
    have h2 : s.abs.delete i = some ⟨s.abs.next, s.abs.live.filter (fun p => !(p.1 == i))⟩ := by
      unfold ASpec.delete
      have : ASpec.find? s.abs.live i = some v := by simpa [ArenaSet.abs, Arena.abs] using hfind
      simp [this]
    rw [h2] at hab
    have := congrArg ASpec.next (Option.some.inj hab)
    simpa [ArenaSet.abs, Arena.abs, Arena.nextId] using this
  rw [hnext]
  have hlt : i < s.arena.items.length := by
    have := (iter_exact s.arena).2 i v |>.1 hm
    simp only [Arena.get?] at this
    split at this
    · cases this
    · exact (List.getElem?_eq_some_iff.1 this).1
  simp only [Arena.nextId]; omega

/-! ### non-vacuity: concrete reachable states meeting the hypotheses -/

example : (Arena.run id Arena.empty [AOp.alloc 7, .alloc 8, .delete 0, .alloc 9, .get 0, .get 2, .iter, .len]).2
    = [.id 0, .id 1, .ok, .id 2, .val none, .val (some 9), .items [(1, 8), (2, 9)], .nat 2] := by decide

example : (ArenaSet.run id ArenaSet.empty [AOp.alloc 7, .alloc 7, .delete 0, .alloc 7, .delete 0, .iter]).2
    = [.id 0, .id 0, .ok, .id 1, .panic, .items [(1, 7)]] := by decide

end C17
end Walrus
