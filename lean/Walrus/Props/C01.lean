import Walrus.Proofs.Sem
import Walrus.Proofs.Rename
import Walrus.Proofs.Bridge
import Walrus.Proofs.AgreeMaps
import Walrus.CodeMaps

/-!
# C01 — parse → emit preserves execution behaviour

Model: an executable semantics of wasm modules (`Walrus/Sem.lean`, `Walrus/Run.lean`): structured
instructions, explicit value stack, store (globals, memories, tables, segments), a canonical
deterministic host, gas consumed by calls and loop back-edges only.  The observation of a run is
the instantiation outcome, the results or trap of every call of a script over the exports (state
carries over), the host-call trace and the exported state.

What walrus does to a body is `rename ∘ elide`: it drops `nop`s and everything that follows an
unconditional transfer in the same sequence (`SL.elide`), and renumbers entity operands.

* **Proved, for every module, every state, every call sequence, every gas budget**: `elide` is
  unobservable (`elision_unobservable`, `elision_unobservable_calls`); **renumbering** of functions
  (any permutation of the index space), of types (de-duplication, sorting), of the locals of each
  function (compaction: locals a body never names may disappear) and the rewriting of block types
  to another form of the same arity are unobservable (`renumbering_unobservable_calls`, and at the
  level of the whole observation `round_trip_unobservable`, which also covers the renumbered
  exports, start function, element items and `ref.func` constants): the interpreter names
  functions and locals by *uid*, the renumbering changes the index ↦ uid tables and the operands,
  and every call returns, traps, traces and leaves the store exactly as before.
* **Tie to the code, checked on every case**: the driver request `elidetie` compares the bodies of
  walrus's real output with `SL.elide` of the real input's bodies (modulo operand renumbering and
  the normal form of block types); the whole-module model predicts the output exactly.
* **Proved, for every body**: what `emit ∘ parse` writes for a body (`outL`, which
  `C03.body_round_trip_in_source_terms` proves to be the output of the modelled parse and emit), read
  back by the interpreter, *is* `ren ρ (elide t)` for `t` the interpreter's reading of the source
  (`written_body_is_ren_elide_of_source`), and therefore executes as the source body does
  (`written_body_behaves_as_source`) — provided the parse-time and emit-time maps take the surviving
  operators and block types where `ρ` takes them (`agreeL`, decidable; evaluated by `rentie` for
  every function of every case with the environment and maps of the modelled emission).
* Not theorems (hence `…_partial`): that the observation of a module does not depend on how uids
  are assigned (a decoded module gets position = uid; the theorem speaks of the output re-indexed to
  the input's uids), and that the whole of walrus's output (all sections) *is* `ren (elide input)`.
  Both are checked on every case:
  the driver request `rentie` evaluates the hypotheses of the renumbering theorem (`EnvRen`) on the
  real input/output pair with the maps the model computes, runs the output under both uid
  assignments, and the side-by-side execution oracle compares input and output end to end.
-/
namespace Walrus
namespace C01
open Walrus.Sem

def swap01' (n : Nat) : Nat := if n = 0 then 1 else if n = 1 then 0 else n

/-- calls into the module whose bodies were elided return, trap, trace and leave the store exactly
    as calls into the original module -/
theorem elision_unobservable_calls (E : Env) (gas : Nat) (u : Nat) (args : List V) (st : Store) :
    invoke E.elide gas u args st = invoke E gas u args st := by
  rw [invoke_elide]

/-- the observation of any script — instantiation (segments, start function), every call with
    carried-over state, host trace, exported state — is unchanged by elision -/
theorem elision_unobservable (m : ModuleM) (E : Env) (gas seed rounds : Nat) :
    observeWith m E.elide.resolve E.elide.usigs (invoke E.elide gas) seed rounds =
    observeWith m E.resolve E.usigs (invoke E gas) seed rounds :=
  observe_elide m E gas seed rounds

/-- **renumbering is unobservable**: if `E'` is `E` with its function indices, type indices, local
    indices and block types renumbered (`EnvRen`: the index ↦ uid tables agree through the
    renumbering, every function keeps uid, signature, import names and parameters, its body is the
    renumbered body, and every local a body names keeps its uid and type), then every call, with
    any arguments, in any store, with any gas, has the same outcome -/
theorem renumbering_unobservable_calls {fρ yρ : Nat → Nat} {btρ : BT → BT} {xρ : Nat → Nat → Nat}
    {E' E : Env} (h : EnvRen fρ yρ btρ xρ E' E) (gas : Nat) (u : Nat) (args : List V) (st : Store) :
    invoke E' gas u args st = invoke E gas u args st := by
  rw [invoke_ren h]

/-- **the round trip is unobservable**: if `E'` is the renumbering (`EnvRen`) of the *elided*
    module, then the renumbered module — exports, start function, element items and `ref.func`
    constants renumbered along — has exactly the observation of the original: same instantiation
    outcome, same results and traps of every call of the script with state carried over, same host
    trace, same exported state.  For every module, script, gas budget. -/
theorem round_trip_unobservable {fρ yρ : Nat → Nat} {btρ : BT → BT} {xρ : Nat → Nat → Nat}
    {E' E : Env} (h : EnvRen fρ yρ btρ xρ E' E.elide) (m : ModuleM) (gas seed rounds : Nat) :
    observeWith (mapFM fρ m) E'.resolve E'.usigs (invoke E' gas) seed rounds =
    observeWith m E.resolve E.usigs (invoke E gas) seed rounds :=
  observe_ren_elide h m gas seed rounds

/-- body-level forms, for any meaning of calls and loop re-entry that agrees on the two sides -/
theorem round_trip_preserves_behaviour_partial (C : Ctx) (R' R : Rec) (h : RecRel R' R)
    (body : SL) (s : St) : execL C R' body.elide s = execL C R body s :=
  elide_execL C R' R h body s

theorem renumbered_body_behaves_the_same (ρ : Ren) (C' C : Ctx) (hc : CtxRen ρ C' C) (R' R : Rec)
    (hr : RecRen ρ C' C R' R) (body : SL) (s : St) (hl : body.All (localOK C' C ρ)) :
    execL C' R' (body.ren ρ) s = execL C R body s :=
  ren_execL ρ C' C hc R' R hr body s hl

/-- **the written body is the renumbered elided source body**: if the interpreter reads the
    source operators of a well-nested body as the tree `t`, then it reads what `emit ∘ parse` writes
    for that body (`outL`) as `ren ρ (elide t)`: `nop`s and everything behind an unconditional
    transfer gone, constructs nested as before, an `else` for every `if`, operands and block types
    renumbered — for every body, whenever the maps agree with `ρ` on what survives -/
theorem written_body_is_ren_elide_of_source (e : PEnv) (m : IdMaps) (ρ : Ren) (body : PL) (hw : body.WF)
    (endLoc : Nat) (ops : List (Nat × Op)) (u : Bool) (ho : outL e m false body = some (ops, u))
    (t : SL) (ht : structureBody ((body.flat ++ [(opEnd, endLoc)]).map (·.1)) = some t)
    (ha : agreeL e m ρ t.elide = true) :
    structureBody (ops.map (·.2) ++ [⟨"End", []⟩]) = some (t.elide.ren ρ) :=
  round_trip_reads_as_ren_elide e m ρ body hw endLoc ops u ho t ht ha

/-- **the written body is `ren (elide source)` for the renumbering the maps themselves induce** —
    no hypothesis about the maps is left to evaluate: for every well-nested body of operators of the
    decoder's shape (`PL.Shaped` of the live part: labels on branches, a function on calls and `ref.func`, a type and
    a table on indirect calls, a local on the local operators, memarg offsets below 2^32) that
    `emit ∘ parse` answers for, with maps that keep tables, globals, memories and segments in place
    (emission without a pass), what is written reads back as the source tree with `nop`s and dead
    code gone and functions, types, locals and block types renumbered by `renOfMaps` -/
theorem written_body_is_ren_elide_by_the_emission_maps (e : PEnv) (m : IdMaps)
    (hid : ∀ sp i, idSpace sp = true → m.get sp i = some i) (body : PL) (hw : body.WF) (hsh : body.live.Shaped)
    (endLoc : Nat) (ops : List (Nat × Op)) (u : Bool) (ho : outL e m false body = some (ops, u)) :
    structureBody (ops.map (·.2) ++ [⟨"End", []⟩]) = some (body.toSem.elide.ren (renOfMaps e m)) :=
  round_trip_reads_as_ren_elide e m (renOfMaps e m) body hw endLoc ops u ho body.toSem
    (source_reads_as_toSem body hw endLoc) (emission_maps_agree e m hid body hw hsh ops u ho)

/-- the same with the shape hypothesis in its decidable form (`PL.shapedB`), which `rentie` evaluates
    for every function of every case -/
theorem written_body_is_ren_elide_by_the_emission_maps_checked (e : PEnv) (m : IdMaps)
    (hid : ∀ sp i, idSpace sp = true → m.get sp i = some i) (body : PL) (hw : body.WF) (hsh : body.live.shapedB = true)
    (endLoc : Nat) (ops : List (Nat × Op)) (u : Bool) (ho : outL e m false body = some (ops, u)) :
    structureBody (ops.map (·.2) ++ [⟨"End", []⟩]) = some (body.toSem.elide.ren (renOfMaps e m)) :=
  written_body_is_ren_elide_by_the_emission_maps e m hid body hw (shapedB_L body.live hsh) endLoc ops u ho

/-- the maps of an emission without a pass keep tables, globals, memories and segments in place -/
theorem plain_emission_maps_are_identity_outside_f_y_x (c : InCode) (pfs : List ParsedFunc) (lmap : List (Nat × Nat))
    (sp : String) (i : Nat) (h : idSpace sp = true) :
    (mapsOf c pfs (keepAll c pfs.length) lmap).get sp i = some i := by
  simp only [idSpace, Bool.or_eq_true, decide_eq_true_eq] at h
  rcases h with (((h | h) | h) | h) | h <;> (subst h; simp [mapsOf, keepAll, IdMaps.get])

/-- … and so the written body executes exactly as the source body, in every state, for any meaning
    of calls and loop re-entry that is related the way `invoke_ren` and `invoke_elide` relate them -/
theorem written_body_behaves_as_source (e : PEnv) (m : IdMaps) (ρ : Ren) (body : PL) (hw : body.WF)
    (endLoc : Nat) (ops : List (Nat × Op)) (u : Bool) (ho : outL e m false body = some (ops, u))
    (t : SL) (ht : structureBody ((body.flat ++ [(opEnd, endLoc)]).map (·.1)) = some t)
    (ha : agreeL e m ρ t.elide = true)
    (C' C : Ctx) (hc : CtxRen ρ C' C) (R'' R' R : Rec) (hr : RecRen ρ C' C R'' R') (he : RecRel R' R)
    (hl : t.elide.All (localOK C' C ρ)) :
    ∃ t', structureBody (ops.map (·.2) ++ [⟨"End", []⟩]) = some t' ∧
      ∀ s, execL C' R'' t' s = execL C R t s := by
  refine ⟨_, written_body_is_ren_elide_of_source e m ρ body hw endLoc ops u ho t ht ha, fun s => ?_⟩
  rw [ren_execL ρ C' C hc R'' R' hr t.elide s hl, elide_execL C R' R he t s]

/-- for operators without entity operands (constants, arithmetic, comparisons, conversions, `drop`,
    `select`, …) the agreement hypothesis holds outright, for every environment, maps and `ρ` -/
theorem operators_without_entity_operands_agree (e : PEnv) (m : IdMaps) (ρ : Ren) (o : Op)
    (hs : structuralName o.name = false)
    (hc : o.name ≠ "Br" ∧ o.name ≠ "BrIf" ∧ o.name ≠ "BrTable" ∧ o.name ≠ "Return" ∧ o.name ≠ "Unreachable" ∧
      o.name ≠ "Nop") (hr : noRefs o.args) : agreeI e m ρ (.op o) = true :=
  agree_of_noRefs e m ρ o hs hc hr

-- non-vacuity: a body with a nop, a call, a block whose branch is followed by dead code, an `if`
-- without `else`; functions 0 and 1 swapped by the emit-time map and by ρ
def srcBody : PL :=
  .cons (.op ⟨"Nop", []⟩ 1)
  (.cons (.op ⟨"Call", [.ref "f" 1]⟩ 2)
  (.cons (.blk ⟨"Block", [.bt .empty]⟩ 3
      (.cons (.op ⟨"Br", [.ref "l" 0]⟩ 4) (.cons (.op ⟨"Drop", []⟩ 5) .nil)) 6)
  (.cons (.op ⟨"I32Const", [.num 1]⟩ 7)
  (.cons (.if1 ⟨"If", [.bt .empty]⟩ 8 (.cons (.op ⟨"Call", [.ref "f" 0]⟩ 9) .nil) 10) .nil))))
def srcEnv : PEnv := ⟨[0, 1], [], [], []⟩
def srcMaps : IdMaps := { funcs := [(0, 1), (1, 0)] }
def srcRen : Ren := ⟨swap01', id, id, id⟩
example : srcBody.WF ∧ agreeL srcEnv srcMaps srcRen srcBody.toSem.elide = true ∧
    (outL srcEnv srcMaps false srcBody).map (·.1.map (·.2)) = some
      [⟨"Call", [.ref "f" 0]⟩, ⟨"Block", [.bt .empty]⟩, ⟨"Br", [.ref "l" 0]⟩, ⟨"End", []⟩,
       ⟨"I32Const", [.num 1]⟩, ⟨"If", [.bt .empty]⟩, ⟨"Call", [.ref "f" 1]⟩, ⟨"Else", []⟩, ⟨"End", []⟩] := by
  refine ⟨by simp [srcBody, PL.WF, PI.WF, isStructural], by decide, by decide⟩

example : srcBody.live.shapedB = true := by decide

-- non-vacuity: elision does remove instructions, including a nested block after a branch
def sampleBody : SL := SL.ofList
  [.op ⟨"Nop", []⟩, .op ⟨"I32Const", [.num 1]⟩, .op ⟨"Br", [.ref "l" 0]⟩,
   .block .empty (SL.ofList [.op ⟨"Unreachable", []⟩]), .op ⟨"Drop", []⟩]
example : sampleBody.size = 6 ∧ sampleBody.elide.size = 2 := by decide
example : sampleBody.elide.flat = [⟨"I32Const", [.num 1]⟩, ⟨"Br", [.ref "l" 0]⟩] := by decide

-- non-vacuity of the renumbering hypotheses: two functions swapped, the second local of function 1
-- moved to slot 1 after an unused local was dropped
def envA : Env :=
  ⟨[([], [])], [0, 1],
   [⟨([], []), none, [], SL.ofList [.op ⟨"Call", [.ref "f" 1]⟩]⟩,
    ⟨([], []), none, [(0, "i32"), (1, "i32")], SL.ofList [.op ⟨"LocalGet", [.ref "x" 1]⟩, .op ⟨"Drop", []⟩]⟩]⟩
def envB : Env :=
  ⟨[([], [])], [1, 0],
   [⟨([], []), none, [], SL.ofList [.op ⟨"Call", [.ref "f" 0]⟩]⟩,
    ⟨([], []), none, [(1, "i32")], SL.ofList [.op ⟨"LocalGet", [.ref "x" 0]⟩, .op ⟨"Drop", []⟩]⟩]⟩
def swap01 (n : Nat) : Nat := if n = 0 then 1 else if n = 1 then 0 else n

example : EnvRen swap01 id id (fun _ x => x - 1) envB envA := by
  refine ⟨?_, ?_, ?_, rfl, ?_⟩
  · intro f
    match f with
    | 0 => rfl
    | 1 => rfl
    | n+2 => simp [swap01, envA, envB]
  · intro y; rfl
  · intro b; rfl
  · intro u fi hu
    match u with
    | 0 =>
      simp [envA] at hu; subst hu
      exact ⟨_, rfl, rfl, rfl, rfl, by simp [SL.ofList, SL.ren, SI.ren, Ren.op, swap01], by simp [SL.ofList, SL.All, SI.All, localOK, isLocalOp]⟩
    | 1 =>
      simp [envA] at hu; subst hu
      refine ⟨_, rfl, rfl, rfl, rfl, by simp [SL.ofList, SL.ren, SI.ren, Ren.op, isLocalOp], ?_⟩
      simp [SL.ofList, SL.All, SI.All, localOK, isLocalOp, Env.ctx, envB]
    | n+2 => simp [envA] at hu

end C01
end Walrus
