import Walrus.Proofs.Sem

/-!
# C01 — parse → emit preserves execution behaviour

Model: an executable semantics of wasm modules (`Walrus/Sem.lean`, `Walrus/Run.lean`): structured
instructions, explicit value stack, store (globals, memories, tables, segments), a canonical
deterministic host, gas consumed by calls and loop back-edges only.  The observation of a run is
the instantiation outcome, the results or trap of every call of a script over the exports (state
carries over), the host-call trace and the exported state.

What walrus does to a body is `rename ∘ elide`: it drops `nop`s and everything that follows an
unconditional transfer in the same sequence (`SL.elide`), and renumbers entity operands.

* **Proved, for every module, every state, every call sequence, every gas budget**: `elide` is
  unobservable (`elision_unobservable`, `elision_unobservable_calls`).
* **Tie to the code, checked on every case**: the driver request `elidetie` compares the bodies of
  walrus's real output with `SL.elide` of the real input's bodies (modulo operand renumbering and
  the normal form of block types); the whole-module model predicts the output exactly.
* **Renumbering** (function order, type de-duplication and sorting, local compaction): the maps are
  the subject of the C19/C03/C04 theorems; that applying them is unobservable is decided here by
  running input and output side by side in the interpreter (oracle, sampling), not by a theorem.
  Hence `…_partial`.
-/
namespace Walrus
namespace C01
open Walrus.Sem

/-- calls into the module whose bodies were elided return, trap, trace and leave the store exactly
    as calls into the original module -/
theorem elision_unobservable_calls (E : Env) (gas : Nat) (f : Nat) (args : List V) (st : Store) :
    invoke E.elide gas f args st = invoke E gas f args st := by
  rw [invoke_elide]

/-- the observation of any script — instantiation (segments, start function), every call with
    carried-over state, host trace, exported state — is unchanged by elision -/
theorem elision_unobservable (m : ModuleM) (E : Env) (gas seed rounds : Nat) :
    observeWith m E.elide.fsigs (invoke E.elide gas) seed rounds =
    observeWith m E.fsigs (invoke E gas) seed rounds :=
  observe_elide m E gas seed rounds

/-- body-level form, for any meaning of calls and loop re-entry that agrees on the two sides -/
theorem round_trip_preserves_behaviour_partial (T FS : List Sig) (R' R : Rec) (h : RecRel R' R)
    (body : SL) (s : St) : execL T FS R' body.elide s = execL T FS R body s :=
  elide_execL T FS R' R h body s

-- non-vacuity: elision does remove instructions, including a nested block after a branch
def sampleBody : SL := SL.ofList
  [.op ⟨"Nop", []⟩, .op ⟨"I32Const", [.num 1]⟩, .op ⟨"Br", [.ref "l" 0]⟩,
   .block .empty (SL.ofList [.op ⟨"Unreachable", []⟩]), .op ⟨"Drop", []⟩]
example : sampleBody.size = 6 ∧ sampleBody.elide.size = 2 := by decide
example : sampleBody.elide.flat = [⟨"I32Const", [.num 1]⟩, ⟨"Br", [.ref "l" 0]⟩] := by decide

end C01
end Walrus
