import Walrus.Maps
import Walrus.Proofs.Locals
import Walrus.Proofs.Module

/-!
# C19 — index maps exposed to extension code agree with the binaries

Model: `Walrus/Maps.lean` (the maps `roundTripModule` itself uses). Exact prediction of both maps
of the real code is the correspondence; the oracle reads the parse-time map inside `on_parse` and
checks every entity's attributes against the independently decoded input, and follows every id
to its output index through tracer names.
-/
namespace Walrus
namespace C19

theorem foldl_distinct_mem (l : List Sig) : ∀ (acc : List Sig) (s : Sig), (s ∈ acc ∨ s ∈ l) →
    s ∈ l.foldl (fun seen s => if seen.contains s then seen else seen ++ [s]) acc := by
  induction l with
  | nil => intro acc s h; rcases h with h | h; exact h; cases h
  | cons x xs ih =>
    intro acc s h
    simp only [List.foldl_cons]
    apply ih
    rcases h with h | h
    · left; split
      · exact h
      · exact List.mem_append_left _ h
    · rcases List.mem_cons.1 h with rfl | h
      · left; split
        · rename_i hc; simpa using hc
        · simp
      · right; exact h

theorem mem_distinctSigs (sigs : List Sig) (s : Sig) (h : s ∈ sigs) : s ∈ distinctSigs sigs :=
  foldl_distinct_mem sigs [] s (Or.inr h)

/-- **parse-time map, types**: the id a type index maps to denotes a type with exactly the
    signature the input defines at that index (de-duplication merges only equal signatures) -/
theorem type_index_denotes_its_signature (sigs : List Sig) (i : Nat) (s : Sig) (h : sigs[i]? = some s) :
    ∃ id, (dedupIds sigs)[i]? = some id ∧ (distinctSigs sigs)[id]? = some s := by
  have hi : i < sigs.length := by
    rcases Nat.lt_or_ge i sigs.length with h1 | h1
    · exact h1
    · simp [List.getElem?_eq_none h1] at h
  have hs : sigs[i] = s := by
    rw [List.getElem?_eq_getElem hi] at h; exact Option.some.inj h
  refine ⟨(distinctSigs sigs).findIdx (· == s), ?_, ?_⟩
  · simp [dedupIds, List.getElem?_map, h]
  · have hm : s ∈ distinctSigs sigs := mem_distinctSigs sigs s (hs ▸ List.getElem_mem hi)
    have hlt : (distinctSigs sigs).findIdx (· == s) < (distinctSigs sigs).length :=
      List.findIdx_lt_length_of_exists ⟨s, hm, by simp⟩
    rw [List.getElem?_eq_getElem hlt]
    have := List.findIdx_getElem (w := hlt)
    simp only [beq_iff_eq] at this
    rw [this]

/-- out-of-range type indices are not in the map -/
theorem type_index_out_of_range (sigs : List Sig) (i : Nat) (h : sigs.length ≤ i) : (dedupIds sigs)[i]? = none := by
  simp [dedupIds, h]

/-- **parse-time map, other spaces**: index `i` of an index space maps to id `i`, which is the arena
    slot the `i`-th entity of that space (imports first) was allocated in; past the end: nothing -/
theorem index_spaces_are_identity (m : ModuleM) (i : Nat) :
    (parseMaps m).funcs[i]? = (if i < importedCount m "f" + m.funcs.length then some i else none) ∧
    (parseMaps m).tables[i]? = (if i < importedCount m "t" + m.tables.length then some i else none) ∧
    (parseMaps m).mems[i]? = (if i < importedCount m "m" + m.mems.length then some i else none) ∧
    (parseMaps m).globals[i]? = (if i < importedCount m "g" + m.globals.length then some i else none) ∧
    (parseMaps m).elems[i]? = (if i < m.elems.length then some i else none) ∧
    (parseMaps m).datas[i]? = (if i < m.datas.length then some i else none) := by
  simp only [parseMaps, List.getElem?_range]
  refine ⟨?_, ?_, ?_, ?_, ?_, ?_⟩ <;> split <;> simp_all

/-- keyed positions: looking up the key of the `j`-th element of a list with distinct keys in
    the map "key ↦ base + position" gives `base + j` -/
theorem assoc_zipIdx_key {α : Type} (key : α → Nat) : ∀ (xs : List α) (base start : Nat),
    (xs.map key).Nodup → ∀ (j : Nat) (hj : j < xs.length),
      assoc ((xs.zipIdx start).map (fun p => (key p.1, base + p.2))) (key xs[j]) = some (base + (start + j)) := by
  intro xs
  induction xs with
  | nil => intro _ _ _ j hj; simp at hj
  | cons x xs ih =>
    intro base start hnd j hj
    simp only [List.zipIdx_cons, List.map_cons, assoc]
    cases j with
    | zero => simp
    | succ j =>
      have hj' : j < xs.length := by simpa using hj
      have hnd' : key x ∉ xs.map key ∧ (xs.map key).Nodup := by
        simpa [List.map_cons, List.nodup_cons] using hnd
      have hne : key x ≠ key xs[j] := by
        intro e
        exact hnd'.1 (by rw [e]; exact List.mem_map_of_mem (List.getElem_mem hj'))
      simp only [List.getElem_cons_succ, hne, if_false]
      rw [ih base (start + 1) hnd'.2 j hj']
      congr 1; omega

/-- **emit-time map, functions**: the index reported for a local function id is the position at
    which that function is emitted (imports first, then the size-sorted local functions) -/
theorem emitted_function_index_exact (nif : Nat) (funcs : List OutFunc) (hnd : (funcs.map (·.id)).Nodup)
    (j : Nat) (hj : j < funcs.length) :
    assoc (funcs.zipIdx.map (fun p => (p.1.id, nif + p.2))) (funcs[j].id) = some (nif + j) := by
  have := assoc_zipIdx_key (fun f : OutFunc => f.id) funcs nif 0 hnd j hj
  simpa using this

/-- **emit-time map, types**: the index reported for a type id is the position of that type in the
    emitted (sorted) type section -/
theorem emitted_type_index_exact (sorted : List (Nat × Sig)) (hnd : (sorted.map (·.1)).Nodup)
    (j : Nat) (hj : j < sorted.length) :
    assoc (sorted.zipIdx.map (fun p => (p.1.1, p.2))) (sorted[j].1) = some j := by
  have := assoc_zipIdx_key (fun p : Nat × Sig => p.1) sorted 0 0 hnd j hj
  simpa using this

/-- **emit-time map, functions, injective**: two function ids are never reported the same index —
    imports keep their own (below `nif`), local functions get `nif +` their position; no assumption
    on the ids is needed -/
theorem emitted_function_index_injective (nif : Nat) (funcs : List OutFunc) (a b x : Nat)
    (ha : assoc ((List.range nif).map (fun i => (i, i)) ++ funcs.zipIdx.map (fun p => (p.1.id, nif + p.2))) a = some x)
    (hb : assoc ((List.range nif).map (fun i => (i, i)) ++ funcs.zipIdx.map (fun p => (p.1.id, nif + p.2))) b = some x) :
    a = b :=
  funcMap_injective (fun f : OutFunc => f.id) nif funcs a b x ha hb

/-- **emit-time map, types, injective**: two type ids are never reported the same index -/
theorem emitted_type_index_injective (sorted : List (Nat × Sig)) (a b x : Nat)
    (ha : assoc (sorted.zipIdx.map (fun p => (p.1.1, p.2))) a = some x)
    (hb : assoc (sorted.zipIdx.map (fun p => (p.1.1, p.2))) b = some x) : a = b := by
  have ha' : assoc ((sorted.zipIdx 0).map (fun p => (p.1.1, 0 + p.2))) a = some x := by simpa using ha
  have hb' : assoc ((sorted.zipIdx 0).map (fun p => (p.1.1, 0 + p.2))) b = some x := by simpa using hb
  obtain ⟨j, h1, _, h3⟩ := assoc_zipIdx_base (fun p : Nat × Sig => p.1) 0 sorted 0 a x ha'
  obtain ⟨j', h1', _, h3'⟩ := assoc_zipIdx_base (fun p : Nat × Sig => p.1) 0 sorted 0 b x hb'
  have : j = j' := by omega
  subst this
  rw [h3] at h3'
  injection h3'

/-- worked instance: duplicate types, an imported function, two local functions swapped by the size
    sort — both maps as the model computes them -/
def sample : ModuleM :=
  { sigs := [(["i32"], []), ([], []), (["i32"], [])],
    imports := [("env", "f", .func 2)],
    funcs := [1, 1],
    code := [([], [(⟨"End", []⟩, 0)]), ([(2, "i32")], [(⟨"Nop", []⟩, 0), (⟨"LocalGet", [.ref "x" 1]⟩, 0), (⟨"Drop", []⟩, 0), (⟨"End", []⟩, 0)])] }

/-- **the local index reported for a local is the slot the binary gives it**: unique, and (for a
    non-parameter) declared in the body's local groups with the local's own type -/
theorem emitted_local_index_exact (args : List Nat) (tyOf : Nat → String) (used : List Nat)
    (hk : ∀ l ∈ used, knownTy (tyOf l)) (l i : Nat) (h : assoc (emitLocals args tyOf used).2 l = some i) :
    (∀ l', assoc (emitLocals args tyOf used).2 l' = some i → l' = l) ∧
    ((l ∈ args ∧ args[i]? = some l) ∨
     (l ∉ args ∧ args.length ≤ i ∧ (expandLocals (emitLocals args tyOf used).1)[i - args.length]? = some (tyOf l))) := by
  refine ⟨fun l' h' => local_map_injective args tyOf used l' l i h' h, ?_⟩
  rcases local_index_spec args tyOf used hk l i h with h1 | ⟨h1, _, h3, _, h5⟩
  · exact Or.inl h1
  · exact Or.inr ⟨h1, h3, h5⟩

example : (parseMaps sample).types = [0, 1, 0] ∧ (parseMaps sample).funcs = [0, 1, 2] ∧
    (parseMaps sample).locals = [(1, []), (2, [0, 1])] := by decide
example : (emitMaps sample).map (fun e => (e.types, e.funcs)) = some ([(0, 1), (1, 0)], [(0, 0), (1, 2), (2, 1)]) := by decide

end C19
end Walrus
