import Walrus.Proofs.Sections
import Walrus.Proofs.Fixpoint

/-!
# C08 — emission is deterministic, repeatable and a fixpoint of the round trip
(slice: custom sections, producers, name-section presence, DWARF presence)

`semit` is a function of the module state, so determinism is definitional in the model; its
content is that the model has no hidden input, which is what the correspondence run and the
byte-equality oracle (same process, fresh processes) check. What is proved here:
emitting changes nothing in the in-memory module, so repeated emits give the same sections; and
re-parsing walrus's own output and emitting again reproduces the same section list.
-/
namespace Walrus
namespace C08

/-- emitting consumes or alters nothing -/
theorem emit_pure (m : SMod) : (semit m).2 = m := rfl

/-- any number of emits (with GC runs in between) on one in-memory module yield the same output -/
theorem emit_repeatable (m : SMod) (script : List SOp) : ∀ o ∈ srun m script, o = (semit m).1 := by
  induction script generalizing m with
  | nil => intro o ho; cases ho
  | cons op r ih =>
    intro o ho
    cases op with
    | emit =>
      simp only [srun, List.mem_cons] at ho
      rcases ho with ho | ho
      · exact ho
      · exact ih (semit m).2 o ho
    | gc => exact ih (sgc m) o ho

/-- one full round trip at the level of this slice: parse, emit (the output section list) -/
def roundTrip (cfg : SCfg) (ver : String) (input : List InC) : List OutC :=
  match sparse cfg ver true input with
  | some m => (semit m).1
  | none => []

theorem classify_name : classify "name" = .name := by decide
theorem classify_producers : classify "producers" = .producers := by decide

/-- the output of a parsed module, group by group -/
theorem roundTrip_eq (cfg : SCfg) (ver : String) (input : List InC) :
    roundTrip cfg ver input =
      (if !cfg.skipName && (nameIn none input).isSome then [OutC.names (nameIn none input)] else []) ++
      (if !cfg.skipProducers then [OutC.producers (producersField (prodIn input) "processed-by" "walrus" ver)] else []) ++
      (if cfg.generateDwarf && dwarfIn input then [OutC.dwarf] else []) ++
      (rawIn input).map (fun c => OutC.raw c.1 c.2) := by
  unfold roundTrip
  rw [sparse_eq]
  have hf : (rawIn input).filter (fun c => !isDebugName c.1) = rawIn input := by
    apply List.filter_eq_self.2
    intro c hc
    have : classify c.1 = .raw := by
      simp only [rawIn, List.mem_map, List.mem_filter, decide_eq_true_eq] at hc
      obtain ⟨x, ⟨_, hx⟩, rfl⟩ := hc; exact hx
    simp [classify_raw_not_debug this]
  simp [semit, parsed, hf, producersField_ne_nil]

/-- **Fixpoint.** Re-parsing the output of a round trip and emitting again gives the same
    sections (custom sections, producers fields, name and DWARF presence). -/
theorem roundtrip_fixpoint (cfg : SCfg) (ver : String) (input : List InC) :
    roundTrip cfg ver ((roundTrip cfg ver input).map OutC.toIn) = roundTrip cfg ver input := by
  have hdebug : classify ".debug_info" = .debug := by decide
  have hrawc : ∀ c ∈ rawIn input, classify c.1 = .raw := by
    intro c hc
    simp only [rawIn, List.mem_map, List.mem_filter, decide_eq_true_eq] at hc
    obtain ⟨x, ⟨_, hx⟩, rfl⟩ := hc; exact hx
  have hmap : ((rawIn input).map (fun c => OutC.raw c.1 c.2)).map OutC.toIn = (rawIn input).map rawToIn := by
    simp [OutC.toIn, rawToIn]
  rw [roundTrip_eq cfg ver input]
  rw [roundTrip_eq cfg ver]
  simp only [List.map_append, hmap, rawIn_append, prodIn_append, dwarfIn_append, nameIn_append,
    rawIn_raws _ hrawc, prodIn_raws _ hrawc, nameIn_raws _ hrawc, dwarfIn_raws]
  cases cfg.skipName <;> cases cfg.skipProducers <;> cases cfg.generateDwarf <;>
  cases nameIn none input <;> cases dwarfIn input <;>
  simp [rawIn, prodIn, nameIn, dwarfIn, OutC.toIn, classify_name, classify_producers, hdebug, nameStep,
    producersField_idem] <;>
  simp [producersField, replaceOrPush]

/-- the classification at its boundaries -/
example : classify ".debug_info" = .debug ∧ classify ".debug" = .debug ∧ classify ".debu" = .raw ∧
    classify "" = .raw ∧ classify "name" = .name ∧ classify "producers" = .producers ∧ classify "names" = .raw := by decide


/-! ## components of the fixpoint: what the round trip does once it does not do again

The whole-module fixpoint `emit (parse out) = out` is decided by the byte-equality oracle and the
exact-prediction correspondence; the transformations the round trip applies are each idempotent: -/

/-- a body that went through nop / dead-code elision is not changed by eliding again -/
theorem elision_is_idempotent (l : Sem.SL) : l.elide.elide = l.elide := elide_idem_L l

/-- the type section of the output holds distinct signatures: de-duplicating it again merges nothing -/
theorem type_dedup_is_idempotent (sigs : List Sig) : distinctSigs (distinctSigs sigs) = distinctSigs sigs :=
  distinctSigs_idem sigs

/-- a list that was sorted by a total comparison is left alone by sorting again (types by
    signature, functions by size then id) -/
theorem emission_order_is_idempotent {α : Type} (le : α → α → Bool)
    (total : ∀ a b, le a b = false → le b a = true) (l : List α) : sortBy le (sortBy le l) = sortBy le l :=
  sortBy_idem le total l

/-- … in particular the function order (size descending, id ascending) -/
theorem function_order_is_idempotent (l : List (Nat × Nat)) :
    sortBy (fun a b => decide (a.2 > b.2) || (a.2 == b.2 && decide (a.1 ≤ b.1)))
      (sortBy (fun a b => decide (a.2 > b.2) || (a.2 == b.2 && decide (a.1 ≤ b.1))) l) =
    sortBy (fun a b => decide (a.2 > b.2) || (a.2 == b.2 && decide (a.1 ≤ b.1))) l :=
  sortBy_idem _ funcOrder_total l

example : sortBy (fun (a b : Nat × Nat) => decide (a.2 > b.2) || (a.2 == b.2 && decide (a.1 ≤ b.1))) [(0, 1), (1, 5), (2, 5)] =
    [(1, 5), (2, 5), (0, 1)] := by decide

/-- reading a name section is idempotent: what `parse_name_section` applies of a name section, it
    applies in full when it meets it again (the local-name prefix it kept is kept whole, nothing is
    dropped a second time), and the in-range filter removes nothing from what it already let through -/
theorem name_reading_is_idempotent (nF nY nT nM nG nE nD : Nat) (n : NamesM) :
    appliedNames nF (appliedNames nF n) = appliedNames nF n ∧
    inRangeNames nF nY nT nM nG nE nD (inRangeNames nF nY nT nM nG nE nD n) = inRangeNames nF nY nT nM nG nE nD n := by
  constructor
  · unfold appliedNames
    by_cases h : (n.locals.takeWhile (·.1 < nF)).length = n.locals.length
    · simp [h]
    · simp only [h, if_false]
      simp [takeWhile_idem]
  · simp [inRangeNames, List.filter_filter]

end C08
end Walrus