import Walrus.Traverse

/-
M7 (function bodies): the IR of one function body and its emission
(`local_function/emit.rs`: the `Emit` visitor folded over `dfs_in_order`; `emit_locals`).

Leaf instructions are kept generic: a wasm operator name with its immediates, entity operands as
arena ids. What walrus's two operator tables do to a leaf (decode at parse, encode at emit) is
the identity on name and immediates; that fact is the subject of C03's table obligations and of
the exhaustive operator correspondence, not of this file.
-/
namespace Walrus

/-- block type of the binary format -/
inductive BT
  | empty | val (t : String) | idx (n : Nat)
  deriving Repr, DecidableEq

inductive Arg
  | ref (space : String) (n : Nat)     -- f t g m y x d e : entity (id in the IR, index in wasm); l : label depth
  | num (n : Nat)                      -- numeric immediate (constants are bit patterns)
  | imm (s : String)                   -- any other immediate (value types, heap types, …), as text
  | bt (b : BT)                        -- block type
  deriving Repr, DecidableEq

structure Op where
  name : String
  args : List Arg
  deriving Repr, DecidableEq

inductive SeqTy
  | empty | val (t : String) | multi (y : Nat)
  deriving Repr, DecidableEq

inductive BInstr
  | block (s : Nat) | loop (s : Nat) | ifElse (c a : Nat)
  | br (s : Nat) | brIf (s : Nat) | brTable (ts : List Nat) (d : Nat)
  | leaf (op : Op)
  deriving Repr, DecidableEq

def BInstr.kids : BInstr → List Nat
  | .block s => [s] | .loop s => [s] | .ifElse c a => [c, a] | _ => []

/-- instruction with its `InstrLocId` -/
abbrev LInstr := BInstr × Nat
/-- sequence type with the location of the sequence end (`InstrSeq::end`) -/
abbrev LSeqTy := SeqTy × Nat

abbrev BArena := TArena LSeqTy LInstr

def bT (i : LInstr) : TInstr LInstr := ⟨i, i.1.kids⟩

/-- `InstrLocId::default()` -/
def defaultLoc : Nat := 0xffffffff

/-- id → index maps at emission time (`IdsToIndices` plus the per-function local map) -/
structure IdMaps where
  funcs : List (Nat × Nat) := []
  tables : List (Nat × Nat) := []
  globals : List (Nat × Nat) := []
  mems : List (Nat × Nat) := []
  types : List (Nat × Nat) := []
  datas : List (Nat × Nat) := []
  elems : List (Nat × Nat) := []
  locals : List (Nat × Nat) := []
  /-- spaces whose ids are their indices (nothing was deleted or reordered) -/
  identity : List String := []
  deriving Repr

def assoc (l : List (Nat × Nat)) (k : Nat) : Option Nat :=
  match l with
  | [] => none
  | (a, b) :: r => if a = k then some b else assoc r k

def IdMaps.get (m : IdMaps) (sp : String) (id : Nat) : Option Nat :=
  if m.identity.contains sp then some id else
  if sp = "f" then assoc m.funcs id else if sp = "t" then assoc m.tables id
  else if sp = "g" then assoc m.globals id else if sp = "m" then assoc m.mems id
  else if sp = "y" then assoc m.types id else if sp = "d" then assoc m.datas id
  else if sp = "e" then assoc m.elems id else if sp = "x" then assoc m.locals id
  else none

inductive BlockKind | block | loop | if_ | else_ | entry
  deriving Repr, DecidableEq

inductive EEv
  | start (s : Nat) (ty : SeqTy)
  | instr (i : BInstr) (loc : Nat)
  | fin (s : Nat) (endLoc : Nat)
  deriving Repr

structure EmitSt where
  blocks : List Nat            -- innermost first
  kinds : List BlockKind       -- innermost first
  out : List Op                -- emitted so far
  /-- the `map` of the `Emit` visitor: (location, position) pairs; the position is the number of
      operators emitted so far (the byte position is a function of it, see `Walrus/Offsets.lean`) -/
  marks : List (Nat × Nat) := []
  deriving Repr

/-- `get_*_index` of an id that was never pushed panics -/
def mapArgs (m : IdMaps) : List Arg → Option (List Arg)
  | [] => some []
  | .ref sp id :: r =>
    match m.get sp id, mapArgs m r with
    | some ix, some r' => some (.ref sp ix :: r')
    | _, _ => none
  | a :: r => (mapArgs m r).map (a :: ·)

def blockTy (m : IdMaps) : SeqTy → Option Arg
  | .empty => some (.bt .empty)
  | .val t => some (.bt (.val t))
  | .multi y => (assoc m.types y).map fun ix => .bt (.idx ix)

/-- `branch_target`: position of the target among the live blocks, innermost = 0 -/
def branchTarget (blocks : List Nat) (s : Nat) : Option Nat :=
  let i := blocks.idxOf s
  if i < blocks.length then some i else none

/-- `visit_instr` for everything that is not a block-like instruction -/
def emitPlain (m : IdMaps) (blocks : List Nat) : BInstr → Option Op
  | .br s => (branchTarget blocks s).map fun d => ⟨"Br", [.ref "l" d]⟩
  | .brIf s => (branchTarget blocks s).map fun d => ⟨"BrIf", [.ref "l" d]⟩
  | .brTable ts d =>
    match branchTarget blocks d, ts.mapM (branchTarget blocks) with
    | some dd, some tts => some ⟨"BrTable", tts.map (Arg.ref "l") ++ [.ref "l" dd]⟩
    | _, _ => none
  | .leaf op => (mapArgs m op.args).map fun a => ⟨op.name, a⟩
  | _ => none

/-- one visitor callback of `Emit`; `none` = panic. Every `visit_instr` and every `end_instr_seq`
    first records `(location, position)`. -/
def emitStep (m : IdMaps) (st : EmitSt) : EEv → Option EmitSt
  | .instr (.block _) loc => some { st with kinds := .block :: st.kinds, marks := st.marks ++ [(loc, st.out.length)] }
  | .instr (.loop _) loc => some { st with kinds := .loop :: st.kinds, marks := st.marks ++ [(loc, st.out.length)] }
  | .instr (.ifElse _ _) loc => some { st with kinds := .if_ :: st.kinds, marks := st.marks ++ [(loc, st.out.length)] }
  | .instr i loc =>
    (emitPlain m st.blocks i).map fun op => { st with out := st.out ++ [op], marks := st.marks ++ [(loc, st.out.length)] }
  | .start s ty =>
    let st1 := { st with blocks := s :: st.blocks }
    match st.kinds with
    | .block :: _ => (blockTy m ty).map fun b => { st1 with out := st1.out ++ [⟨"Block", [b]⟩] }
    | .loop :: _ => (blockTy m ty).map fun b => { st1 with out := st1.out ++ [⟨"Loop", [b]⟩] }
    | .if_ :: _ => (blockTy m ty).map fun b => { st1 with out := st1.out ++ [⟨"If", [b]⟩] }
    | .entry :: _ => some st1
    | .else_ :: _ => some st1
    | [] => none
  | .fin _ endLoc =>
    let marks := st.marks ++ [(endLoc, st.out.length)]
    match st.blocks, st.kinds with
    | _ :: bs, .if_ :: ks => some { blocks := bs, kinds := .else_ :: ks, out := st.out ++ [⟨"Else", []⟩], marks := marks }
    | _ :: bs, _ :: ks => some { blocks := bs, kinds := ks, out := st.out ++ [⟨"End", []⟩], marks := marks }
    | _, _ => none

def emitFold (m : IdMaps) : EmitSt → List EEv → Option EmitSt
  | st, [] => some st
  | st, e :: r => (emitStep m st e).bind (emitFold m · r)

def evStart (s : Nat) (ty : LSeqTy) : List EEv := [.start s ty.1]
def evInstr (i : LInstr) : List EEv := [.instr i.1 i.2]
def evEnd (s : Nat) (ty : LSeqTy) : List EEv := [.fin s ty.2]

/-- the events `dfs_in_order` hands to the `Emit` visitor -/
def bodyEvents (ar : BArena) (fuel entry : Nat) : List (Nat × Nat) × List EEv :=
  dfsInOrder evStart evInstr evEnd ar fuel entry

def arenaFuel (ar : BArena) : Nat := 2 * (ar.foldl (fun n p => n + 2 + p.2.2.length) 0) + 4

/-- `emit::run`: `none` when the traversal does not terminate within the fuel or a lookup panics -/
def emitBody (m : IdMaps) (ar : BArena) (entry : Nat) : Option (List Op) :=
  let r := bodyEvents ar (arenaFuel ar) entry
  if !r.1.isEmpty then none else
  (emitFold m ⟨[], [.entry], [], []⟩ r.2).map (·.out)

/-- emission together with the raw (location, operator position) map -/
def emitBodyMarks (m : IdMaps) (ar : BArena) (entry : Nat) : Option (List Op × List (Nat × Nat)) :=
  let r := bodyEvents ar (arenaFuel ar) entry
  if !r.1.isEmpty then none else
  (emitFold m ⟨[], [.entry], [], []⟩ r.2).map fun st => (st.out, st.marks)

/-! ### `emit_locals` -/

def tyRank (t : String) : Nat :=
  if t = "i32" then 0 else if t = "i64" then 1 else if t = "f32" then 2 else if t = "f64" then 3
  else if t = "v128" then 4 else if t = "funcref" then 5 else if t = "externref" then 6 else 7

def insertSorted (x : Nat) : List Nat → List Nat
  | [] => [x]
  | y :: r => if x < y then x :: y :: r else if x = y then y :: r else y :: insertSorted x r

/-- local ids mentioned by the instructions the traversal visits (a set, ascending) -/
def usedLocals (evs : List EEv) : List Nat :=
  evs.foldl (fun acc e => match e with
    | .instr (.leaf op) _ => op.args.foldl (fun a x => match x with | .ref "x" id => insertSorted id a | _ => a) acc
    | _ => acc) []

/-- parameters at their positions; then the used non-parameter locals grouped by type in the
    order of `ValType`, ascending id inside a group. Returns (declared groups, local map). -/
def emitLocals (args : List Nat) (tyOf : Nat → String) (used : List Nat) : List (Nat × String) × List (Nat × Nat) :=
  let nonArgs := used.filter (fun l => !args.contains l)
  let ranks := [0, 1, 2, 3, 4, 5, 6, 7]
  let groups := ranks.filterMap fun r =>
    let g := nonArgs.filter (fun l => tyRank (tyOf l) = r)
    match g with
    | [] => none
    | l :: _ => some (tyOf l, g)
  let argMap := args.zipIdx.map (fun p => (p.1, p.2))
  let rest := (groups.flatMap (·.2)).zipIdx.map (fun p => (p.1, p.2 + args.length))
  (groups.map (fun g => (g.2.length, g.1)), argMap ++ rest)

end Walrus
