import Walrus.Driver.ArenaD
import Walrus.Driver.SectionsD
import Walrus.Driver.VisitD
import Walrus.Driver.BodyD
import Walrus.Driver.CodeD
import Walrus.Driver.OffsetsD
import Walrus.Driver.DwarfD
import Walrus.Driver.ModuleD
import Walrus.Driver.MapsD
import Walrus.Driver.GcD
import Walrus.Driver.SemD

open Walrus.Driver

def dispatch (line : String) : String :=
  match words line with
  | "arena" :: rest => handleArena rest
  | "sect" :: rest => handleSect rest
  | "visit" :: rest => handleVisit rest
  | "builder" :: rest => handleBuilder rest
  | "code" :: rest => handleCode rest
  | "offsets" :: rest => handleOffsets rest
  | "dwarf" :: rest => handleDwarf rest
  | "module" :: rest => handleModule rest
  | "maps" :: rest => handleMaps rest
  | "gc" :: rest => handleGc rest
  | "used" :: rest => handleUsed rest
  | "exec" :: rest => handleExec rest
  | "execw" :: rest => handleExecW rest
  | "elidetie" :: rest => handleElideTie rest
  | "replace" :: rest => handleReplace rest
  | "rentie" :: rest => handleRenTie rest
  | "execeq" :: rest => handleExecEq rest
  | _ => "bad-request"

partial def loop (h : IO.FS.Stream) (out : IO.FS.Stream) : IO Unit := do
  let line ← h.getLine
  if line.isEmpty then return ()
  out.putStrLn (dispatch line.trimAscii.toString)
  loop h out

def main : IO Unit := do
  let stdin ← IO.getStdin
  let stdout ← IO.getStdout
  loop stdin stdout
