#!/usr/bin/env python3
"""Write the prompt for a seeded-change sub-agent: `seedprompt.py <property id> <suffix> <outdir>`.
The prompt contains the property's text (title, statement, quantifier) and the one-sentence
summaries of the earlier seeded changes for that property (so that a different mechanism is
chosen); nothing else from /verif."""
import json, sys, os, glob
pid, suffix, outdir = sys.argv[1], sys.argv[2], sys.argv[3]
name = pid + suffix
prop = None
for l in open('/verif/properties.jsonl'):
    p = json.loads(l)
    if p['id'] == pid:
        prop = p
earlier = []
for d in sorted(glob.glob(f'/verif/seeded/{pid}*')):
    try:
        earlier.append(json.load(open(d + '/meta.json'))['summary'])
    except Exception:
        pass
wt = f'/tmp/wt/{name}'
out = f'{outdir}/{name}'
text = f'''You are helping test a verification framework for the Rust library "walrus" (rustwasm/walrus: parses WebAssembly into a tree-shaped IR, supports transformations and GC passes, re-emits wasm). Your job is to play the role of a developer who introduces a realistic bug.

You have your own scratch git worktree of the walrus repository at: {wt}
Work ONLY inside that directory (and write your deliverables to {out}/). Do not read or touch /repo, /verif or any other directory outside your worktree. There is no network: always pass --offline to cargo (e.g. `CARGO_NET_OFFLINE=true cargo build --offline`).

Here is a semantic property that walrus is supposed to satisfy:

-----
{pid}: {prop['title']}

{prop['statement']}

Quantified over: {prop['quantifier']['text']}

-----

Task: make ONE small, realistic source change to walrus (the kind of slip or "simplification"/"optimisation" a maintainer could plausibly commit: an off-by-one, a wrong/missing case, a swapped operand, a dropped update, a too-eager shortcut, a wrong ordering, ...) such that:
 1. the workspace still compiles;
 2. the existing test suite still passes exactly as before: run `cd {wt} && CARGO_NET_OFFLINE=true cargo test --workspace --no-fail-fast --offline 2>&1 | grep -E "^test result|FAILED|failed"` before and after your change; the 5 tests walrus-fuzz-utils tests::fuzz0, fuzz1, fuzz2, wasm_opt_ttf_fuzz, watgen_fuzz ALWAYS fail in this sandbox (they need external tools) — ignore those; everything else must still pass;
 3. the property above is violated, but only for inputs/usages with some specific feature (it must not break on every module — it should need something specific to manifest, e.g. a particular instruction kind, section combination, entity count, nesting shape, index range, ...). Subtle is better than blatant.
 4. you can demonstrate the violation concretely.

Do not edit tests. Do not add new dependencies. Do NOT use `git stash` (the stash is shared between worktrees of other people working in parallel) — to get a run without your change, save it with `git diff > {out}/my.diff`, `git checkout -- .`, and re-apply with `git apply`. Keep the change small (typically 1-15 lines) and confined to the library sources (src/, crates/*/src/).

Deliverables, written to {out}/ :
 - patch.diff : output of `git -C {wt} diff` (the source change only; must apply cleanly with `git apply` to the original commit);
 - demo/ : a demonstration that shows the violation: e.g. a small .wat or .wasm input plus a short Rust program (example file or integration test, that you may place in the worktree under examples/ or crates/tests/tests/ to run it, but deliver a COPY in demo/ and do NOT include it in patch.diff) and the exact command to run it, with the output observed with and without your change;
 - meta.json : {{"property": "{pid}", "summary": "<one sentence: what was changed>", "needs": "<what specific feature an input needs for the violation to show>", "files": ["<changed files>"], "demo_cmd": "<command>", "existing_tests_pass": true}}

Earlier attempts already used these ideas, so pick a DIFFERENT mechanism and code location (ideally a different source file):
''' + ''.join(f' - "{e}"\n' for e in earlier) + '''
When done, reply with a short summary (what you changed, what triggers it, and confirmation that the existing tests still pass apart from the 5 always-failing ones). If you cannot find such a change after a serious attempt, say so and explain.
'''
os.makedirs(outdir, exist_ok=True)
open(f'{outdir}/{name}.prompt.txt', 'w').write(text)
print(f'{outdir}/{name}.prompt.txt')
