#!/bin/sh
# run the repository's own test-suite (guard off) and report pass/fail counts; 146 passes expected (134 baseline tests + 12 doctests),
# the 5 walrus-fuzz-utils tests fail in the baseline as well (they need external tools).
cd /repo && cargo test --workspace --no-fail-fast --offline 2>&1 | awk '/^test result/ {p+=$4; f+=$6} END {print "passed=" p " failed=" f; exit !(p==146 && f==5)}'
