#!/usr/bin/env python3
"""regenerate /verif/MANIFEST.json from checklib/props.py (claimed checks) and not_applicable.json"""
import json, sys, os
V = os.path.dirname(os.path.dirname(os.path.abspath(__file__)))
sys.path.insert(0, os.path.join(V, "checklib"))
from props import PROPS
ids = [json.loads(l)["id"] for l in open(os.path.join(V, "properties.jsonl"))]
na_reasons = json.load(open(os.path.join(V, "checklib", "not_applicable.json")))
checks = []
for pid in ids:
    if pid not in PROPS:
        continue
    c = PROPS[pid]
    checks.append({
        "property_id": pid,
        "quick_cmd": f"./check {pid} --tier quick",
        "thorough_cmd": f"./check {pid} --tier thorough",
        "evidence_file": f"evidence/{pid}.json",
        "replay_cmd_template": f"./check {pid} --replay {{path}}",
        "engine": "lean-model",
        "level_claimed": {"category": "proof", "text": c["claim"], "design_ref": f"DESIGN.md section 4, {pid}"},
        "level_note": c["level_note"],
        "technique": c["technique"],
    })
claimed = sorted(PROPS.keys())
m = {
    "version": 1,
    "setup_cmd": "./check --setup",
    "hooks": {
        "guard": "walrus_verif",
        "enable": "none needed so far: every observable used by the checks is reachable through walrus's public API (RUSTFLAGS='--cfg walrus_verif' is reserved)",
        "baseline_off_cmd": "cd /repo && cargo test --workspace --no-fail-fast --offline",
        "source_commits": [],
        "add_only": True,
    },
    "engines": [
        {"name": "lean-model", "path": "lean", "serves_properties": claimed, "kind_free_text": "Lean 4 model + theorems (lake project Walrus), compiled driver wmodel"},
        {"name": "wharness", "path": "harness", "serves_properties": claimed, "kind_free_text": "Rust harness linking /repo: correspondence cases and property oracles"},
        {"name": "wtrans", "path": "translator", "serves_properties": [p for p in claimed if PROPS[p].get("gen")], "kind_free_text": "syn-based translator: /repo source -> Lean tables under lean/Walrus/Gen (regenerated on every run)"},
    ],
    "checks": checks,
    "not_applicable": [{"property_id": i, "reason": na_reasons.get(i, "not yet claimed: check under construction (see DESIGN.md section 5)")} for i in ids if i not in PROPS],
    "notes": "Properties are claimed one by one as their check runs green on the unchanged tree; see DESIGN.md for strength per property and known_findings.json for repaired / open defects.",
}
json.dump(m, open(os.path.join(V, "MANIFEST.json"), "w"), indent=1)
print("claimed:", " ".join(claimed))
