#!/bin/sh
# usage: tools/seedsweep.sh <outfile> [<name> ...]
# runs every seeded change (or the named ones) against the property it was written for and appends
# "<name> <first line of result.txt>" to <outfile>; /repo is restored after each.
out=$1; shift
names="$@"
[ -z "$names" ] && names=$(ls /verif/seeded | sort)
for n in $names; do
  p=$(python3 -c "import json;print(json.load(open('/verif/seeded/$n/meta.json'))['property'])" 2>/dev/null)
  [ -z "$p" ] && continue
  /verif/tools/seedtest.sh $n $p > /dev/null 2>&1
  echo "$n $(head -1 /verif/seeded/$n/result.txt)" >> $out
done
echo SWEEP-DONE >> $out
