#!/bin/sh
# usage: tools/seedtest.sh <seed-dir-name> <property> [<property> ...]
# applies /verif/seeded/<name>/patch.diff to /repo, runs the quick checks of the given properties,
# records verdicts in /verif/seeded/<name>/result.txt and restores /repo.
set -u
name=$1; shift
dir=/verif/seeded/$name
if [ -n "$(git -C /repo status --porcelain --untracked-files=no)" ]; then echo "/repo is not clean"; exit 2; fi
git -C /repo apply "$dir/patch.diff" || { echo "patch does not apply"; exit 2; }
: > "$dir/result.txt"
for p in "$@"; do
  out=$(cd /verif && ./check "$p" 2>&1); rc=$?
  v=$(printf '%s\n' "$out" | grep -E "^VIOLATION" | head -3 | tr '\n' ' ')
  echo "property=$p exit=$rc $v" | tee -a "$dir/result.txt"
  printf '%s\n' "$out" | tail -2 >> "$dir/result.txt"
  # the first concrete failing input joins the corpus of past failures that every later run of this
  # property replays first (so that a reshuffled generator cannot lose it)
  python3 - "$p" "$name" <<'PY'
import json, os, sys
p, name = sys.argv[1], sys.argv[2]
d = f"/verif/replays/{p}"
if os.path.isdir(d):
    for fn in sorted(os.listdir(d), key=lambda x: int(x.split('.')[0]) if x.split('.')[0].isdigit() else 0):
        try:
            r = json.load(open(os.path.join(d, fn)))
        except Exception:
            continue
        if r.get("kind") == "oracle" and r.get("only") and r.get("suite") and not str(r.get("case", "")).startswith("corpus/"):
            os.makedirs(f"/verif/corpus/{p}", exist_ok=True)
            json.dump({"suite": r["suite"], "only": r["only"], "key": r.get("key"), "from": f"seeded/{name}"},
                      open(f"/verif/corpus/{p}/{name}.json", "w"), indent=1)
            break
PY
done
git -C /repo checkout -- .
# the generated tables were regenerated from the patched tree: regenerate them from the restored one
/verif/translator/target/release/wtrans /repo /verif/lean/Walrus/Gen parsites instrspec codestart parsearms emitorder >/dev/null 2>&1 || true
git -C /repo status --porcelain --untracked-files=no
