#!/usr/bin/env python3
"""Regenerates the 'as built' table of DESIGN.md (between the AS-BUILT markers) from checklib/props.py,
the Lean Props modules (theorem names) and seeded/*/result.txt."""
import os, re, sys, json, glob
sys.path.insert(0, os.path.dirname(os.path.dirname(os.path.abspath(__file__))))
from checklib.props import PROPS
V = os.path.dirname(os.path.dirname(os.path.abspath(__file__)))

def theorems(mod):
    p = os.path.join(V, "lean", *mod.split(".")) + ".lean"
    if not os.path.exists(p):
        return []
    return re.findall(r"^theorem\s+([A-Za-z0-9_'.]+)", open(p).read(), re.M)

out = ["| id | theorems (Props module) | suites (tie + oracle) | strength |", "|---|---|---|---|"]
for pid in sorted(PROPS):
    c = PROPS[pid]
    th = []
    for m in c["lean_modules"]:
        th += theorems(m)
    gen = (" + generated: " + ", ".join(c["gen"])) if c.get("gen") else ""
    suites = ", ".join(s["name"] + ("[" + s["features"] + "]" if s.get("features") else "") for s in c["suites"])
    out.append(f"| {pid} | {', '.join('`'+t+'`' for t in th)}{gen} | {suites} | {c.get('strength','')} |")
table = "\n".join(out)

rows = ["| seeded change | what it does | needs | verdicts of the checks run against it |", "|---|---|---|---|"]
for d in sorted(glob.glob(os.path.join(V, "seeded", "*"))):
    meta = os.path.join(d, "meta.json")
    if not os.path.exists(meta):
        continue
    try:
        m = json.load(open(meta))
    except Exception:
        m = {}
    res = []
    rp = os.path.join(d, "result.txt")
    if os.path.exists(rp):
        for l in open(rp):
            mm = re.match(r"property=(\S+) exit=(\d+)(.*)", l)
            if mm:
                tail = mm.group(3)
                kind = "clean" if mm.group(2) == "0" else ("VIOLATION, no failing input" if "no-failing-input-found" in tail else "VIOLATION with replay")
                res.append(f"{mm.group(1)}: {kind}")
    s = lambda x: str(x).replace("|", "/").replace("\n", " ")
    rows.append(f"| `seeded/{os.path.basename(d)}` | {s(m.get('summary',''))[:260]} | {s(m.get('needs',''))[:200]} | {'; '.join(res)} |")
seeded = "\n".join(rows)

p = os.path.join(V, "DESIGN.md")
s = open(p).read()
for tag, body in (("AS-BUILT", table), ("SEEDED", seeded)):
    a, b = f"<!-- BEGIN {tag} -->", f"<!-- END {tag} -->"
    if a in s and b in s:
        s = s[:s.index(a) + len(a)] + "\n" + body + "\n" + s[s.index(b):]
open(p, "w").write(s)
print("DESIGN.md tables regenerated")
