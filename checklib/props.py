"""Per-property configuration of the check driver.

lean_modules : Lean modules whose build is the proof obligation (Props.<ID> holds only property theorems)
suites       : wharness sub-commands to run (correspondence requests + oracle verdicts)
rule         : how cases are generated and what makes one distinct & non-trivial (goes to evidence)
"""

PROPS = {
    "C17": {
        "claim": 'Lean theorems: TombstoneArena and ArenaSet refine the {counter, live list} specification for every operation history (stability, no recycling, deletion final and isolated, iteration = live items in creation order, de-duplicating insert); the model is tied to the code by running the same histories on every public collection and comparing every answer.',
        "level_note": 'Trusted: Lean kernel (+propext, Classical.choice, Quot.sound), the hand-written model of tombstone_arena.rs/arena_set.rs (sampled against the code on each run), id_arena and std hash containers.',
        "technique": 'Lean 4 refinement proof + differential correspondence run',
        "lean_modules": ["Walrus.Props.C17"],
        "suites": [{"name": "arena"}],
        "rule": "operation histories (add/delete/get/index/iterate/len/find) on each public collection "
                "(types=ArenaSet; memories, tables, globals, data, elements, exports, imports, functions, customs=TombstoneArena): "
                "all histories up to a small length over a 2-value alphabet, then random histories from VERIF_SEED; "
                "a case is non-trivial when it contains at least one successful delete, distinct by (collection, history)",
        "strength": "full: refinement of both containers to the {counter, live list} specification for every history; "
                    "tie = differential run of the same histories on the real collections",
        "trusted_base": ["id_arena (append-only arena) and std HashMap/HashSet are modelled, not verified"],
        "assumptions": ["identifiers used in a history were handed out by the same collection (ids cannot be forged through the public API)"],
    },
    "C12": {
        "claim": "Lean theorem customs_survive: for every input, configuration and script of emits/GC runs on the parsed module, each emitted binary carries exactly the input's uninterpreted custom sections (name, payload, multiplicity, order). The model (parse arm for custom sections + custom tail of emit_wasm as a state transformer) must predict the custom-section list of every emit of the real code exactly; an independent oracle compares input and output custom sections.",
        "level_note": "Trusted: Lean kernel, hand model of Module::parse's custom-section arm and emit_wasm's tail (sampled against the code each run), wasmparser/wasm-encoder section framing.",
        "technique": 'Lean 4 proof over a state-transformer model + differential correspondence run',
        "lean_modules": ["Walrus.Props.C12"],
        "suites": [{"name": "sections"}],
        "rule": "generated valid modules (random feature mix) with custom sections sprinkled at every section boundary "
                "(duplicate names, empty names/payloads, names close to the interpreted ones: 'names', 'producer', '.debug'), "
                "with/without name, producers and junk .debug sections, x 8 switch settings x scripts over {emit, gc} "
                "(e, ee, ege, ge, eee, egege, gee); 1 in 7 inputs corrupted. Non-trivial: the input has at least one custom section; distinct by request",
        "strength": "full in the model (customs_survive: every script of emits and GC runs); tie: exact prediction of the custom-section list of every emit",
        "trusted_base": ["wasmparser section framing (decoder of the harness), wasm-encoder custom-section framing"],
        "assumptions": ["custom sections added by user code with a name walrus interprets are out of scope (the property is about parsed modules)"],
    },
    "C14": {
        "claim": 'Lean theorems skip_name_exact, skip_producers_exact, dwarf_iff, producers_once, producers_stable (any number of round trips), on_parse_once over the section-level model; exact prediction of the custom/name/producers/DWARF section inventory of the real code for all 8 switch settings; byte-level oracle that flipping a switch changes no other section.',
        "level_note": 'Trusted: as C12; gimli abstracted to presence of DWARF; producers_once assumes a well-formed input producers section.',
        "technique": 'Lean 4 proof + differential correspondence run + byte-level switch oracle',
        "lean_modules": ["Walrus.Props.C14"],
        "suites": [{"name": "sections"}],
        "rule": "as C12; each case additionally re-run with the name switch and the producers switch flipped (byte comparison of all other sections), "
                "round-tripped 3 more times for the producers clause, and its parse callback counted. Non-trivial: input has >=1 custom section",
        "strength": "full in the model for name/producers/DWARF presence, producers content and callback count; 'nothing else changes' for standard sections is decided by the byte-level oracle; DWARF presence is modelled as a flag (gimli abstracted)",
        "trusted_base": ["gimli (DWARF re-serialisation) abstracted to presence", "wasmparser/wasm-encoder framing"],
        "assumptions": ["producers_once assumes a well-formed input producers section (unique field names, unique value names per field), as the tool-conventions require"],
    },
    "C08": {
        "claim": 'Lean theorems emit_pure, emit_repeatable, roundtrip_fixpoint for the custom-section/producers/name/DWARF slice of the module (emit as a state transformer); oracle on the real code: repeated emits on one Module byte-identical, two parses emit identical bytes, re-parse+emit of the output is a byte-for-byte fixpoint. Partial: byte-level determinism of the standard sections is decided by the oracle, not yet by a theorem.',
        "level_note": 'Trusted: as C12; hash-iteration independence and wasm-encoder being a function are sampled by the oracle, not proved.',
        "technique": 'Lean 4 proof (slice) + byte-equality oracle',
        "lean_modules": ["Walrus.Props.C08"],
        "suites": [{"name": "sections"}],
        "rule": "as C12; oracle: emits on one Module byte-identical, a second parse of the same bytes emits identical bytes (fresh hash seeds), "
                "re-parsing the output and emitting reproduces it byte for byte. Non-trivial: input has >=1 custom section",
        "strength": "emit_pure / emit_repeatable / roundtrip_fixpoint proved for the custom-section, producers, name- and DWARF-presence slice of the module; "
                    "byte-level determinism of the standard sections and cross-process hashing are decided by the oracle only (see DESIGN.md)",
        "trusted_base": ["std HashMap iteration order is never relied on without a following sort: audited by the oracle, not proved"],
        "assumptions": [],
    },
    "C09": {
        "claim": 'Lean theorems parMapCollect_eq, schedAny_eq, firstError_eq: for every schedule (completion order of the per-function tasks) the indexed collect equals the serial map, any equals the serial any, and the reported error is the first by index; kernel-checked obligations over the table of maybe_parallel! sites regenerated from /repo by the translator on every run (each site is map+collect::<Vec> or any; no other rayon use; no unsafe/interior mutability in src/). Oracle: serial vs parallel build on the same inputs for several thread counts and repeats, byte-identical output and identical errors. Partial: rayon and data-race freedom are trusted.',
        "level_note": "Trusted: Lean kernel, wtrans (syn-based extraction), rayon's indexed collect/any, Rust's Send/Sync guarantees; thread interleavings are sampled, not proved.",
        "technique": 'Lean 4 proof over all schedules + translator-generated site table + serial/parallel differential oracle',
        "lean_modules": ["Walrus.Props.C09"],
        "gen": ["parsites"],
        "suites": [{"name": "par", "features": "parallel"}],
        "rule": "the same inputs through the serial and the parallel build: generated modules (<=40 functions), synthetic modules with 2..300 functions of equal and unequal size, "
                "modules with failing function bodies at 1-4 random indices; x thread counts {1,2,4,16} (thorough 1..16) x repeats; compared: emitted bytes or the error text. "
                "Non-trivial: every case (each has >=2 functions); distinct by resulting digest/error",
        "strength": "partial by design: theorems cover the collection discipline for every schedule and the generated site table; rayon and data-race freedom of safe Rust are trusted; actual interleavings are sampled",
        "trusted_base": ["rayon's indexed collect / any; Rust's Send/Sync typing", "wtrans (syn) extraction of the maybe_parallel! sites"],
        "assumptions": ["every task completes (rayon joins all tasks before collect returns)"],
    },
    "C16": {
        "claim": "Lean theorems: dfs_in_order (explicit work stack) equals the recursive program-order walk for every function whose sequence graph unfolds to a finite tree, of any size and depth (in_order_is_program_order); dfs_pre_order_mut scans every sequence of the tree exactly once (pre_order_visits_each_sequence_once); every visited instruction reports each entity operand exactly once for default and overriding visitors (operands_exactly_once), resting on kernel-checked obligations over the Instr table and visitor plumbing regenerated from /repo by the translator on every run. Correspondence: event logs of four recording visitors on parsed and builder-made functions predicted exactly by the model. Oracle: recursive reference walk, per-instruction operand multiset, nesting depth 1e5 on a 256 KiB stack. Call-stack depth is observed, not proved.",
        "level_note": "Trusted: Lean kernel; wtrans (syn/text extraction of enum Instr and of the macro's quote! blocks); the hand model of the two traversal loops (sampled against the code); harness's reading of the IR (irtext).",
        "technique": "Lean 4 simulation proof (explicit stack = recursive walk) + translator-generated Instr table + differential event-log correspondence",
        "lean_modules": ["Walrus.Props.C16"],
        "gen": ["instrspec"],
        "suites": [{"name": "visit"}],
        "rule": "every local function of generated modules (random feature mix) and builder-made functions (random trees built in random insertion orders), each traversed by dfs_in_order and dfs_pre_order_mut with a default-hook and an all-hooks-overridden recording visitor; plus one function of nesting depth 100000. Non-trivial: function with more than one sequence; distinct by request",
        "strength": "order / exactly-once: full for all finite unfoldings; stack depth observed only",
        "trusted_base": ["walrus_macro expansion is read textually from its quote! blocks"],
        "assumptions": ["the sequence graph reachable from the entry is acyclic (instruction trees; a cyclic graph makes the real traversal loop forever)"],
    },
    "C15": {
        "claim": "Lean theorems: for every builder history whose sequence graph unfolds to a finite tree, the emitted body (Emit visitor folded over dfs_in_order) is exactly the structural in-order flattening of that tree (builder_emit_is_flatten: same instructions, order, nesting, block types); a branch is emitted with the depth at which its target sits among the enclosing constructs and no nearer construct is the target (branch_depth_reaches_target); instr_at is list insertion and panics iff pos > len; dangling sequences get fresh ids and builder calls touch only the addressed sequence; parameters keep their positions. Correspondence: the builder trace of random trees built in random insertion orders (append, positional insert, dangling-then-attach, block/loop_/if_else and their _at variants) is replayed by the model, whose predicted declared locals and emitted operator stream must equal the decoded real output exactly. Oracle: harness-side flattening of the intended tree, validation, local-slot checks.",
        "level_note": "Trusted: Lean kernel; hand model of function_builder.rs and of the Emit visitor/emit_locals (sampled against the code each run); wasmparser decoding of the emitted body. Leaf operators of the builder suite are a small alphabet whose IR->operator mapping is written in the harness.",
        "technique": "Lean 4 proof (emit = flatten of tree view, by mutual structural recursion) + builder-trace correspondence",
        "lean_modules": ["Walrus.Props.C15"],
        "suites": [{"name": "builder"}],
        "rule": "random well-typed instruction trees (leaf alphabet: const/drop, local get/set/tee, global get/set, call, add, br_if, br, br_table, return, unreachable; block/loop/if-else with empty, i32 and multi-value types; depth<=6, up to ~60 nodes) built through the public builder API in a random construction order. Non-trivial: tree with >=3 nodes; distinct by builder trace",
        "strength": "full under the finite-unfolding precondition; emitLocals: parameters-at-positions proved, injectivity/type agreement checked by the oracle",
        "trusted_base": ["fuel used by the driver (2*arena size+4) is checked by the correspondence, not proved sufficient"],
        "assumptions": ["sequence graph acyclic and every branch targets an enclosing sequence (otherwise the real emit panics / loops; outside the property)"],
    },
    "C03": {
        "claim": "Lean: the Emit visitor folded over the in-order traversal of a parsed body equals the structural flattening of its tree view (emitBody_eq_flatten, all trees, all depths); the parse-time control stack and the whole code round trip (type de-duplication and sorting, size-sorted function order, local compaction, nop/dead-code elision, if-without-else completion, label <-> sequence-id translation, memarg offset wrap) are an executable model that must predict walrus's emitted type section, function order, declared locals and every operator exactly, on every supported plain operator of wasmparser's for_each_operator! (enumerated completely, each with boundary immediates) and on generated modules. Oracle independent of the model: input vs output bodies decoded with wasmparser, compared after renaming, flat-stream elision and the if/else identification.",
        "level_note": "Trusted: Lean kernel; hand model of append_instruction's control handling and of the Emit visitor (leaf operators are generic: name + immediates, so the two 900-line operator tables are tied by the exhaustive operator correspondence, not by a table theorem yet); wasmparser decoding, wasm-encoder reencode (to build the operator instances).",
        "technique": "Lean 4 proof (emit side) + exact-prediction correspondence over the exhaustive operator set + independent elision oracle",
        "lean_modules": ["Walrus.Props.C03"],
        "suites": [{"name": "code"}],
        "rule": "every plain operator of walrus's feature set (515 of wasmparser's for_each_operator!, found by proposal tag) x 3 boundary-immediate choices (9 in thorough), each typed by a validator-driven search and wrapped in a function of a fixed environment; plus generated modules (random feature mix, dead code, nops, if without else, multi-value blocks, duplicate types, all functions exported for tracking). Non-trivial: operator instances and bodies with structured control; distinct by request",
        "strength": "emit side proved; parse side exact-prediction correspondence (theorem buildBody = elided annotated tree is the next deepening step); full property false today for memarg offsets >= 2^32 (open finding D5)",
        "trusted_base": ["the classification of immediates by wasmparser field name (decode.rs)"],
        "assumptions": ["C03_partial carries offset < 2^32 for memory64 accesses (D5)"],
    },
    "C11": {
        "claim": "Lean theorems, for every module prefix, every list of emitted functions and every operator encoding (the encoder is a parameter; local declarations are opaque bytes; the code section is laid out with real LEB128): every pair of the instruction map is the location of an emitted operator and the absolute offset at which that operator's bytes begin in the binary, and no pair carries the default (inserted) location (map_entries_point_at_their_instruction); every function range delimits exactly that function's code-section entry (ranges_delimit_entries); the reported code-section start is where the section contents begin when the count-LEB length is subtracted (code_start_is_content_start), which is a kernel-checked obligation on the expression the translator regenerates from ModuleFunctions::emit on every run. The raw location map of the Emit visitor pairs each emitted operator, in order, with its position (emitBody_eq_flatten). Correspondence: the CodeTransform observed by a spy custom section is predicted exactly (start, ranges, every pair) from the input module and the observed operator byte lengths. Oracle: each pair must hit an operator boundary of the decoded output that is the same instruction as the input operator at the input offset, for {unchanged, instructions inserted, GC}, with function counts and body sizes on both sides of LEB boundaries.",
        "level_note": "Trusted: Lean kernel; hand model of the offset loop and of the Emit visitor's map (sampled against the code each run); wtrans text extraction of the code_section_start expression; wasmparser operator offsets; wasm-encoder section framing (modelled).",
        "technique": "Lean 4 proof parametric in the encoder (byte-layout soundness of the offset bookkeeping) + translator-extracted expression + exact-prediction correspondence",
        "lean_modules": ["Walrus.Props.C11"],
        "gen": ["codestart"],
        "suites": [{"name": "offsets"}],
        "rule": "generated modules (random feature mix, all functions exported) x {unchanged, unchanged, two instructions inserted at the start of every second function, GC}; plus synthetic modules with 1/2/127/128/129(/300/16383/16384) functions and first bodies of 126..129 (16383..16385) bytes x {unchanged, inserted}. Non-trivial: more than one function; distinct by request",
        "strength": "full for the model; the inserted-instruction and GC variants are decided by the oracle (the model request covers the unchanged variant)",
        "trusted_base": ["operator byte lengths are observed from the output (the encoder is a parameter of the theorems)"],
        "assumptions": ["distinct input locations (byte offsets) per instruction, as the default on_instr_loc gives"],
    },
    "C10": {
        "claim": "Lean theorems over the DWARF address logic (CodeAddressGenerator / CodeAddressConverter / the convert_address closures / convert_high_pc / the row loop of convert_line_program), on top of the offset bookkeeping proved exact in C11: an address that is the start of an input instruction converts to the start of the same instruction relative to the code-section contents (instruction_address_follows_instruction, row_address_is_operator_start); addresses of removed instructions convert to nothing and their rows are skipped; inside a sequence whose base does not follow the row in the output the emitted row designates exactly its instruction (row_follows_instruction), which holds for per-function sequences by monotonicity of offsets (posOf_mono); subprogram ranges are converted exactly when the size-LEB length is unchanged (subprogram_range_partial). The three points where the unchanged code violates the property are stated as kernel-checked counterexamples and listed as open findings. Correspondence: for synthesised DWARF v4/v5 (gimli::write) the converted rows and subprogram ranges read back with gimli::read are predicted exactly by the model. Oracle: every output row vs the decoded position of its instruction; every subprogram vs its function; {unchanged, inserted, GC}; per-function and multi-function sequences; LEB boundaries.",
        "level_note": "Trusted: Lean kernel; hand model of debug/{expression,dwarf,mod}.rs address logic (sampled against the code); gimli reading/writing of DWARF (not modelled); binary searches modelled as lookups over sorted tables. Partial: three open findings (multi-function sequences, size-LEB length change, elided first instruction); rows naming file 0 in DWARF v5 are not generated yet (gimli::write 0.26 cannot emit them).",
        "technique": "Lean 4 proof over the address-conversion model + exact-prediction correspondence on synthesised DWARF",
        "lean_modules": ["Walrus.Props.C10"],
        "gen": ["codestart"],
        "suites": [{"name": "dwarf"}],
        "rule": "generated modules with synthesised DWARF (one subprogram per function with low_pc = body start, one row per instruction; sequences per function or spanning 2-3 functions; versions 4 and 5) x {unchanged, inserted instructions, GC}; plus synthetic modules on both sides of the function-count and body-size LEB boundaries. Non-trivial: more than one function; distinct by request",
        "strength": "address logic proved; property partial (three open findings); gimli sampled",
        "trusted_base": ["gimli 0.26 read/write"],
        "assumptions": ["well-formed DWARF only (the property says so)"],
    },
    "C04": {
        "claim": "The whole-module round trip is an executable Lean model (roundTripModule: ids for every index space, type de-duplication and sorting, imports in order, size-sorted function order, constant expressions, exports, start, element/data segments with wasm-encoder's flag selection, the data-count rule, names) that must predict walrus's decoded output exactly, section by section. Lean theorems (Props/C04): the model's output preserves imports (module, field, kind, full type, order), tables, memories, global types, export names/kinds/order, segment count, order, mode and payload for every input; function-typed references are renamed by one injective map. Oracle independent of the model: non-code sections of input and output decoded with wasmparser and compared under the renaming read off the binaries.",
        "level_note": "Trusted: Lean kernel; hand model of the parse_*/Emit impls of every section (sampled against the code each run); wasmparser decoding; wasm-encoder's segment flag choice is modelled.",
        "technique": "Lean 4 structural-preservation theorems over the module round-trip model + exact-prediction correspondence + independent structural oracle",
        "lean_modules": ["Walrus.Props.C04"],
        "suites": [{"name": "module"}],
        "rule": "generated valid modules (MVP / full / random feature mix): every entity kind x {imported, local} x 32/64-bit x shared, all element-segment encodings wasm-encoder can write, active/passive data segments on several memories, const-expr forms (constants, global.get of imported globals, ref.null, ref.func), start, duplicate types, name sections on every second module; all functions exported for tracking. Non-trivial: module with at least one import or segment; distinct by request",
        "strength": "model exact on all sections; theorems cover the preserved components listed in the claim",
        "trusted_base": ["the __f<i> exports are used by the oracle to follow functions (relies on export retargeting being right, which the same oracle checks against the model)"],
        "assumptions": [],
    },
    "C13": {
        "claim": "The name-section part of the whole-module Lean model (parse of every name subsection through the parse-time index maps, emission through the emit-time maps and the per-function local map, sorting by index, merged types keep one name) must predict the decoded output name section exactly. Lean theorems (Props/C13): output function/table/memory/global/element/data names are exactly the input names moved by the renaming (no name is attached to another entity); local names follow the local map of emit_locals. Oracle independent of the model: output names vs input names under the renaming reconstructed from the binaries, with the tolerances the property states (unused locals, merged types).",
        "level_note": "Trusted: as C04; wasmparser's name-section reader; wasm-encoder's name-section writer.",
        "technique": "Lean 4 theorems over the names part of the module model + exact-prediction correspondence + independent names oracle",
        "lean_modules": ["Walrus.Props.C13"],
        "suites": [{"name": "module"}],
        "rule": "as C04; name sections with every subsection independently present, names on a random half of the entities, on parameters and on used and unused locals, on duplicate types. Non-trivial: as C04; distinct by request",
        "strength": "model exact; theorems for the index-renamed subsections; local names by correspondence + oracle",
        "trusted_base": [],
        "assumptions": ["label/field/tag subsections and names of unused locals may be dropped (stated in the property)"],
    },
    "C19": {
        "claim": "Lean theorems over the maps the module model itself uses: a type index maps to an id that denotes a type with exactly the input's signature (type_index_denotes_its_signature: de-duplication merges only equal signatures), out-of-range indices are absent, every other index space maps index i to the arena slot of its i-th entity (imports first); at emit time the index reported for a function / type id is the position at which it is emitted (emitted_function_index_exact, emitted_type_index_exact, for any list with distinct ids). Correspondence: the parse-time map read inside on_parse (all spaces incl. locals, plus two indices past the end) and the emit-time map read inside CustomSection::data are predicted exactly. Oracle independent of the model: each id's entity is compared with the independently decoded input entity at that index (attributes, import names, body ranges, local types); each id is followed to its output index through unique tracer names, also after a GC run.",
        "level_note": "Trusted: Lean kernel; hand model of IndicesToIds/IdsToIndices pushes (sampled against the code); the oracle's tracer names rely on C13 (checked independently).",
        "technique": "Lean 4 proof over the index maps + exact-prediction correspondence + attribute / tracer-name oracle",
        "lean_modules": ["Walrus.Props.C19"],
        "suites": [{"name": "maps"}],
        "rule": "generated valid modules (MVP / full / random feature mix) with imports of every kind, duplicate types, data-count present and absent; every third case runs the GC pass before emitting (emit-time map only). Non-trivial: module with imports and more than one local function; distinct by request",
        "strength": "full for types and functions (de-duplication / ordering lemmas) and identity spaces; locals by correspondence + oracle",
        "trusted_base": [],
        "assumptions": [],
    },
    "C20": {
        "claim": "Lean theorems over the module round-trip model: the four places where the emitter could introduce a post-MVP construct do not escalate — element segments of table 0 with function items are written with the MVP flag 0 even if the input named table 0 explicitly, other segment kinds keep their flags (element_encoding_not_escalated); data segments of memory 0 get flag 0 (data_encoding_not_escalated); no data-count section appears without data segments (no_data_count_without_data); empty and single-result block types are re-emitted in that form and type-index block types are simplified whenever their signature allows (simple_block_types_stay_simple, index_block_type_simplified). Operators and types are the input's own (C03/C04). Oracle: for every proposal p (and the MVP itself, and random subsets) under which the input validates without p, the output must validate without p, decided by the reference validator. The model predicts the whole output on these minimal-feature inputs exactly.",
        "level_note": "Trusted: Lean kernel; the module model (sampled against the code); wasmparser's feature gating is the reference for 'needs' (not modelled). Partial: the theorem side covers the emitter's four choice points, not a full formal 'needs' function.",
        "technique": "Lean 4 proof of non-escalation at the emitter's choice points + reduced-feature validation oracle",
        "lean_modules": ["Walrus.Props.C20"],
        "suites": [{"name": "features"}],
        "rule": "generated modules biased to minimal feature use (pure MVP, MVP + exactly one proposal, random mix); each validated under walrus's feature set minus each of 12 proposals, under the bare MVP and under random subsets (4, thorough 24), input and output. Non-trivial: every module; distinct by request",
        "strength": "partial: choice points proved; validity under reduced feature sets by the oracle",
        "trusted_base": ["wasmparser 0.214 feature gating"],
        "assumptions": [],
    },
}
