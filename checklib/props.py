"""Per-property configuration of the check driver.

lean_modules : Lean modules whose build is the proof obligation (Props.<ID> holds only property theorems)
suites       : wharness sub-commands to run (correspondence requests + oracle verdicts)
rule         : how cases are generated and what makes one distinct & non-trivial (goes to evidence)
"""

PROPS = {
    "C17": {
        "lean_modules": ["Walrus.Props.C17"],
        "suites": [{"name": "arena"}],
        "rule": "operation histories (add/delete/get/index/iterate/len/find) on each public collection "
                "(types=ArenaSet; memories, tables, globals, data, elements, exports, imports, functions, customs=TombstoneArena): "
                "all histories up to a small length over a 2-value alphabet, then random histories from VERIF_SEED; "
                "a case is non-trivial when it contains at least one successful delete, distinct by (collection, history)",
        "strength": "full: refinement of both containers to the {counter, live list} specification for every history; "
                    "tie = differential run of the same histories on the real collections",
        "trusted_base": ["id_arena (append-only arena) and std HashMap/HashSet are modelled, not verified"],
        "assumptions": ["identifiers used in a history were handed out by the same collection (ids cannot be forged through the public API)"],
    },
}
