"""Per-property configuration of the check driver.

lean_modules : Lean modules whose build is the proof obligation (Props.<ID> holds only property theorems)
suites       : wharness sub-commands to run (correspondence requests + oracle verdicts)
rule         : how cases are generated and what makes one distinct & non-trivial (goes to evidence)
"""

PROPS = {
    "C17": {
        "lean_modules": ["Walrus.Props.C17"],
        "suites": [{"name": "arena"}],
        "rule": "operation histories (add/delete/get/index/iterate/len/find) on each public collection "
                "(types=ArenaSet; memories, tables, globals, data, elements, exports, imports, functions, customs=TombstoneArena): "
                "all histories up to a small length over a 2-value alphabet, then random histories from VERIF_SEED; "
                "a case is non-trivial when it contains at least one successful delete, distinct by (collection, history)",
        "strength": "full: refinement of both containers to the {counter, live list} specification for every history; "
                    "tie = differential run of the same histories on the real collections",
        "trusted_base": ["id_arena (append-only arena) and std HashMap/HashSet are modelled, not verified"],
        "assumptions": ["identifiers used in a history were handed out by the same collection (ids cannot be forged through the public API)"],
    },
    "C12": {
        "lean_modules": ["Walrus.Props.C12"],
        "suites": [{"name": "sections"}],
        "rule": "generated valid modules (random feature mix) with custom sections sprinkled at every section boundary "
                "(duplicate names, empty names/payloads, names close to the interpreted ones: 'names', 'producer', '.debug'), "
                "with/without name, producers and junk .debug sections, x 8 switch settings x scripts over {emit, gc} "
                "(e, ee, ege, ge, eee, egege, gee); 1 in 7 inputs corrupted. Non-trivial: the input has at least one custom section; distinct by request",
        "strength": "full in the model (customs_survive: every script of emits and GC runs); tie: exact prediction of the custom-section list of every emit",
        "trusted_base": ["wasmparser section framing (decoder of the harness), wasm-encoder custom-section framing"],
        "assumptions": ["custom sections added by user code with a name walrus interprets are out of scope (the property is about parsed modules)"],
    },
    "C14": {
        "lean_modules": ["Walrus.Props.C14"],
        "suites": [{"name": "sections"}],
        "rule": "as C12; each case additionally re-run with the name switch and the producers switch flipped (byte comparison of all other sections), "
                "round-tripped 3 more times for the producers clause, and its parse callback counted. Non-trivial: input has >=1 custom section",
        "strength": "full in the model for name/producers/DWARF presence, producers content and callback count; 'nothing else changes' for standard sections is decided by the byte-level oracle; DWARF presence is modelled as a flag (gimli abstracted)",
        "trusted_base": ["gimli (DWARF re-serialisation) abstracted to presence", "wasmparser/wasm-encoder framing"],
        "assumptions": ["producers_once assumes a well-formed input producers section (unique field names, unique value names per field), as the tool-conventions require"],
    },
    "C08": {
        "lean_modules": ["Walrus.Props.C08"],
        "suites": [{"name": "sections"}],
        "rule": "as C12; oracle: emits on one Module byte-identical, a second parse of the same bytes emits identical bytes (fresh hash seeds), "
                "re-parsing the output and emitting reproduces it byte for byte. Non-trivial: input has >=1 custom section",
        "strength": "emit_pure / emit_repeatable / roundtrip_fixpoint proved for the custom-section, producers, name- and DWARF-presence slice of the module; "
                    "byte-level determinism of the standard sections and cross-process hashing are decided by the oracle only (see DESIGN.md)",
        "trusted_base": ["std HashMap iteration order is never relied on without a following sort: audited by the oracle, not proved"],
        "assumptions": [],
    },
}
